(** C05 Name resolution: go-to-definition and references follow TableGen scoping.
    Theorems about the executable model of crates/ide/src/index.rs, index/scope.rs, index/context.rs,
    index/bang_operator.rs and symbol_map*.rs (coq/model/Scope.v, BangOps.v, Indexer.v).
    Only statements; proofs are in coq/proofs/. *)
From Coq Require Import List NArith Bool.
From TG.Model Require Import CoreAst Scope BangOps Indexer ScopeSpec.
From TG.Model Require ScopeSpecT.
From TG.Proofs Require ScopeSimT ScopeSimWsT.
From TG.Proofs Require Import IndexerTotal ScopeSimWs FieldLookupVisited ScopeBalance ScopeFrame ScopeSim ScopeSimStmt ScopeSimRec PosLog.
Import ListNotations.
Open Scope N_scope.

(** Every statement other than `defvar` / `include` - class, def, defm, defset, foreach, if, let, multiclass,
    assert, dump - leaves the scope stack exactly as it found it (it pops what it pushes, on every path,
    whatever optional parts are present), for ALL programs, states and fuels. *)
Theorem C05_block_scopes_end : forall files n x s,
    block_like x = true -> s_scopes (snd (index_stmt files n x s)) = s_scopes s.
Proof. exact scopes_balanced. Qed.
Check C05_block_scopes_end : forall files n x s,
    block_like x = true -> s_scopes (snd (index_stmt files n x s)) = s_scopes s.
Print Assumptions C05_block_scopes_end.

(** Nothing declared inside such a construct (template arguments, fields, defvars, foreach and operator
    variables) is visible to the local lookup after it: `Scopes::find_local` answers for EVERY name what it
    answered before the statement. *)
Theorem C05_locals_do_not_leak : forall files n x s nm,
    block_like x = true -> current_record_id s = None -> mc_scopes_valid s ->
    find_local (snd (index_stmt files n x s)) nm = find_local s nm.
Proof. exact locals_do_not_leak. Qed.
Check C05_locals_do_not_leak : forall files n x s nm,
    block_like x = true -> current_record_id s = None -> mc_scopes_valid s ->
    find_local (snd (index_stmt files n x s)) nm = find_local s nm.
Print Assumptions C05_locals_do_not_leak.

(** C05_out_of_scope (partial: the full statement also covers uses after a record body ended through a field
    access, which needs the typed resolver of ScopeSpec): a name that did not resolve before a construct and
    that the construct did not define as a global def or defset does not resolve after it ... *)
Theorem C05_out_of_scope_partial : forall files n x s nm,
    block_like x = true -> current_record_id s = None -> mc_scopes_valid s ->
    resolve_id s nm = None ->
    find_def (snd (index_stmt files n x s)) nm = None -> find_defset (snd (index_stmt files n x s)) nm = None ->
    resolve_id (snd (index_stmt files n x s)) nm = None.
Proof. exact out_of_scope_unresolved. Qed.
Check C05_out_of_scope_partial : forall files n x s nm,
    block_like x = true -> current_record_id s = None -> mc_scopes_valid s ->
    resolve_id s nm = None ->
    find_def (snd (index_stmt files n x s)) nm = None -> find_defset (snd (index_stmt files n x s)) nm = None ->
    resolve_id (snd (index_stmt files n x s)) nm = None.
Print Assumptions C05_out_of_scope_partial.

(** ... and a use of a name that does not resolve yields no definition (nothing is recorded at the use) and
    exactly one "symbol not found" diagnostic on the range of the use, in the current file. *)
Theorem C05_unresolved_reported : forall n i s,
    resolve_id s (i_name i) = None -> name_eqb (i_name i) name_NAME = false ->
    let loc := mkR (current_file s) (r_lo (i_rng i)) (r_hi (i_rng i)) in
    let '(o, s') := index_simple (S n) (SId i) s in
    o = None /\ s_diags s' = (loc, DSymbolNotFound) :: s_diags s /\ s_refs s' = s_refs s /\ s_pos s' = s_pos s.
Proof. exact unresolved_use_reported. Qed.
Check C05_unresolved_reported : forall n i s,
    resolve_id s (i_name i) = None -> name_eqb (i_name i) name_NAME = false ->
    let loc := mkR (current_file s) (r_lo (i_rng i)) (r_hi (i_rng i)) in
    let '(o, s') := index_simple (S n) (SId i) s in
    o = None /\ s_diags s' = (loc, DSymbolNotFound) :: s_diags s /\ s_refs s' = s_refs s /\ s_pos s' = s_pos s.
Print Assumptions C05_unresolved_reported.

(** Non-vacuity: the hypotheses of C05_out_of_scope_partial hold in a non-trivial situation - the root scope
    after `defvar g = 1;`, the statement `foreach i = 0-1 in { defvar x = i; }`, the names i and x declared
    inside: neither resolves afterwards, while g still does. *)
Definition ex_id (lo hi c : N) : ident := mkId (mkR 0 lo hi) [c].
Definition ex_int (lo hi : N) : value := Val (mkR 0 lo hi) [Inner SInt []].
Definition ex_use (i : ident) : value := Val (i_rng i) [Inner (SId i) []].
Definition ex_pre : st := snd (index_stmt [] 9 (SDefvar (ex_id 7 8 103) (ex_int 11 12)) st0).
Definition ex_foreach : stmt :=
  SForeach (ex_id 22 23 105) FeRange [SDefvar (ex_id 41 42 120) (ex_use (ex_id 45 46 105))].
Example C05_out_of_scope_nonvacuous :
  block_like ex_foreach = true /\ current_record_id ex_pre = None /\ mc_scopes_valid ex_pre /\
  resolve_id ex_pre [105] = None /\ resolve_id ex_pre [120] = None /\ resolve_id ex_pre [103] <> None /\
  find_def (snd (index_stmt [] 9 ex_foreach ex_pre)) [105] = None /\
  find_defset (snd (index_stmt [] 9 ex_foreach ex_pre)) [105] = None /\
  s_refs (snd (index_stmt [] 9 ex_foreach ex_pre)) <> [] /\
  resolve_id (snd (index_stmt [] 9 ex_foreach ex_pre)) [103] <> None.
Proof.
  repeat split; try (vm_compute; congruence); try reflexivity.
  intros c mid [<-|[]] E; vm_compute in E; discriminate.
Qed.

(** C05_resolution, value level (partial: statements are not yet under this theorem).
    For EVERY value of the fragment [frag_value] (literals, identifiers, lists, bits, dags, pastes, class values
    with positional and named arguments, !cond, all 50 bang operators incl. the variable-binding !foreach / !filter /
    !foldl over list literals; no field access), every fuel that suffices, every state [s] that is related to an
    environment [e] of the declarative resolver ScopeSpec ([Pre]: same current file, identifiers / classes /
    multiclasses resolve to the same declarations), if every use in the value is in scope according to the
    specification, then the model records exactly the uses the specification lists, in order, each resolved to
    the declaration the specification assigns ([Step]: s_uses grows by exactly that list), emits no "not found"
    diagnostic, leaves the scope stack and everything lookups depend on unchanged. *)
Theorem C05_resolution_values_partial : forall n v f e s,
    frag_value v = true -> Pre f e s -> forallb resolved (spec_value f e v) = true ->
    s_bad (snd (index_value n v s)) = false ->
    Step s (snd (index_value n v s)) (spec_value f e v).
Proof. exact value_agrees. Qed.
Check C05_resolution_values_partial : forall n v f e s,
    frag_value v = true -> Pre f e s -> forallb resolved (spec_value f e v) = true ->
    s_bad (snd (index_value n v s)) = false ->
    Step s (snd (index_value n v s)) (spec_value f e v).
Print Assumptions C05_resolution_values_partial.

(** Non-vacuity: `!foldl(0, [1, 2], acc, x, !add(acc, x))` in the initial state (related to the empty environment):
    well-scoped, in the fragment, enough fuel; the two uses `acc` and `x` of the body are recorded and resolve
    to the identifiers bound by the operator. *)
Definition ex_foldl : value :=
  Val (mkR 0 0 40) [Inner (SBang XFoldl None
    [ex_int 7 8;
     Val (mkR 0 10 16) [Inner (SList [ex_int 11 12; ex_int 14 15]) []];
     ex_use (mkId (mkR 0 18 21) [97; 99; 99]);
     ex_use (ex_id 23 24 120);
     Val (mkR 0 26 39) [Inner (SBang XAdd None [ex_use (mkId (mkR 0 31 34) [97; 99; 99]); ex_use (ex_id 36 37 120)]
                                    (mkR 0 26 39)) []]]
    (mkR 0 0 40)) []].
Example C05_resolution_values_nonvacuous :
  frag_value ex_foldl = true /\ Pre 0 env0 st0 /\ forallb resolved (spec_value 0 env0 ex_foldl) = true /\
  s_bad (snd (index_value 30 ex_foldl st0)) = false /\
  spec_value 0 env0 ex_foldl = [(mkR 0 31 34, Some (mkR 0 18 21)); (mkR 0 36 37, Some (mkR 0 23 24))].
Proof. repeat split; try reflexivity; try apply Pre_initial. Qed.

(** C05_resolution for the block statements (partial: the statements that declare records - class, def, defm,
    defset, multiclass - and includes are not yet under this theorem).
    For EVERY list of statements built from assert, dump, defvar, foreach, if/else and let (any nesting) over
    values of the fragment, indexed from the initial state with enough fuel: if every use is in scope according
    to the declarative resolver ScopeSpec, the uses the model records, in order, with the declarations they are
    resolved to, are EXACTLY the list the specification computes, and no "not found" diagnostic is emitted.
    (In particular a defvar of an if / let / foreach block is invisible after the block - D13 - because the
    specification forgets the extended environment.) *)
Theorem C05_resolution_blocks_partial : forall files n l,
    fragA_stmts l = true ->
    forallb resolved (fst (spec_stmts 0 env0 l)) = true ->
    s_bad (snd (iterM (index_stmt files n) l st0)) = false ->
    rev (s_uses (snd (iterM (index_stmt files n) l st0))) = fst (spec_stmts 0 env0 l) /\
    nf (snd (iterM (index_stmt files n) l st0)) = [].
Proof. exact blocks_resolution. Qed.
Check C05_resolution_blocks_partial : forall files n l,
    fragA_stmts l = true ->
    forallb resolved (fst (spec_stmts 0 env0 l)) = true ->
    s_bad (snd (iterM (index_stmt files n) l st0)) = false ->
    rev (s_uses (snd (iterM (index_stmt files n) l st0))) = fst (spec_stmts 0 env0 l) /\
    nf (snd (iterM (index_stmt files n) l st0)) = [].
Print Assumptions C05_resolution_blocks_partial.

(** Non-vacuity: `defvar g = 1; foreach i = [1, 2] in { defvar x = !add(i, g); if g then { defvar y = x; } else
    { let f = i in { defvar g = [x, i]; } } } defvar h = g;` (the serialisation of the REAL parse): in the fragment,
    well-scoped, enough fuel; 8 uses, the last `g` resolves to the FIRST defvar (the inner `g` is out of scope). *)
Definition ex_blocks : list stmt :=
  [(SDefvar (mkId (mkR 0 7 8) [103]) (Val (mkR 0 11 12) [(Inner SInt [])])); (SForeach (mkId (mkR 0 22 23) [105]) (FeValue (Val (mkR 0 26 33) [(Inner (SList [(Val (mkR 0 27 28) [(Inner SInt [])]); (Val (mkR 0 30 31) [(Inner SInt [])])]) [])])) [(SDefvar (mkId (mkR 0 45 46) [120]) (Val (mkR 0 49 59) [(Inner (SBang XAdd None [(Val (mkR 0 54 55) [(Inner (SId (mkId (mkR 0 54 55) [105])) [])]); (Val (mkR 0 57 58) [(Inner (SId (mkId (mkR 0 57 58) [103])) [])])] (mkR 0 49 59)) [])])); (SIf (Val (mkR 0 64 66) [(Inner (SId (mkId (mkR 0 64 65) [103])) [])]) [(SDefvar (mkId (mkR 0 80 81) [121]) (Val (mkR 0 84 85) [(Inner (SId (mkId (mkR 0 84 85) [120])) [])]))] (Some [(SLet [(Val (mkR 0 104 106) [(Inner (SId (mkId (mkR 0 104 105) [105])) [])])] [(SDefvar (mkId (mkR 0 118 119) [103]) (Val (mkR 0 122 128) [(Inner (SList [(Val (mkR 0 123 124) [(Inner (SId (mkId (mkR 0 123 124) [120])) [])]); (Val (mkR 0 126 127) [(Inner (SId (mkId (mkR 0 126 127) [105])) [])])]) [])]))])]))]); (SDefvar (mkId (mkR 0 143 144) [104]) (Val (mkR 0 147 148) [(Inner (SId (mkId (mkR 0 147 148) [103])) [])]))].
Example C05_resolution_blocks_nonvacuous :
  fragA_stmts ex_blocks = true /\ forallb resolved (fst (spec_stmts 0 env0 ex_blocks)) = true /\
  s_bad (snd (iterM (index_stmt [] 60) ex_blocks st0)) = false /\
  length (fst (spec_stmts 0 env0 ex_blocks)) = 8%nat /\
  last (fst (spec_stmts 0 env0 ex_blocks)) (mkR 0 0 0, None) = (mkR 0 147 148, Some (mkR 0 7 8)).
Proof. vm_compute. repeat split; reflexivity. Qed.

(** From the use log to the queries.  `SymbolMap::find_symbol_at` on the position log: when all logged identifier
    ranges that contain a position are one and the same range (tokens of a parse tree are disjoint or equal), the
    symbol found there is the one of the NEWEST entry with that range; go-to-definition returns its declaration
    range and find-references its reference list.  `add_reference` makes the reference that newest entry and
    logs the use; and the declaration range of a symbol never changes afterwards (all programs). *)
Theorem C05_goto_newest_entry : forall s l1 l2 r sym f p,
    s_pos s = l1 ++ (r, sym) :: l2 ->
    (forall e, In e l1 -> rng_has (fst e) f p = false) ->
    rng_has r f p = true ->
    (forall e, In e l2 -> rng_has (fst e) f p = true -> fst e = r) ->
    find_symbol_at s f p = Some sym /\
    goto_definition s f p = define_loc s sym /\
    references s f p = Some (reference_locs s sym).
Proof. exact goto_newest_entry. Qed.
Check C05_goto_newest_entry : forall s l1 l2 r sym f p,
    s_pos s = l1 ++ (r, sym) :: l2 ->
    (forall e, In e l1 -> rng_has (fst e) f p = false) ->
    rng_has r f p = true ->
    (forall e, In e l2 -> rng_has (fst e) f p = true -> fst e = r) ->
    find_symbol_at s f p = Some sym /\
    goto_definition s f p = define_loc s sym /\
    references s f p = Some (reference_locs s sym).
Print Assumptions C05_goto_newest_entry.

Theorem C05_reference_logged : forall s sym loc,
    rng_empty loc = false ->
    let s' := snd (add_reference sym loc s) in
    s_pos s' = (loc, sym) :: s_pos s /\ s_refs s' = (sym, loc) :: s_refs s /\
    s_uses s' = (loc, define_loc s sym) :: s_uses s.
Proof. exact add_reference_logs. Qed.
Check C05_reference_logged : forall s sym loc,
    rng_empty loc = false ->
    let s' := snd (add_reference sym loc s) in
    s_pos s' = (loc, sym) :: s_pos s /\ s_refs s' = (sym, loc) :: s_refs s /\
    s_uses s' = (loc, define_loc s sym) :: s_uses s.
Print Assumptions C05_reference_logged.

Theorem C05_declarations_stable : forall files n x s sym d,
    define_loc s sym = Some d -> define_loc (snd (index_stmt files n x s)) sym = Some d.
Proof. intros files n x s. exact (LocR_index_stmt files n x s). Qed.
Check C05_declarations_stable : forall files n x s sym d,
    define_loc s sym = Some d -> define_loc (snd (index_stmt files n x s)) sym = Some d.
Print Assumptions C05_declarations_stable.

(** C05_resolution (partial: no field access `v.f`, one file without include; the step from the use log to
    go-to-definition / find-references at positions is C05_goto_newest_entry under token disjointness).
    For EVERY list of statements of the fragment [frag_stmt] (ScopeSpec.v, the predicate the check evaluates on
    its inputs) - class (template arguments with defaults, PARENT CLASSES with arguments, fields, field lets, body
    defvars, asserts, dumps), def (named, pasted name, anonymous; parent classes), multiclass (template arguments,
    parent multiclasses, any body), defm, defset, defvar, foreach, if/else, let, assert, dump; values with all 50
    bang operators - indexed from the initial state with enough fuel: if every use is in scope according to the
    declarative resolver ScopeSpec, then the list of uses the model records, in order, each with the range of the
    declaration it was resolved to, is EXACTLY the list the specification computes, and no "not found" diagnostic
    is emitted.  The specification has no scope stack, no arena, no early return, no parent list and no recursive
    field lookup: a scope is an extension of an immutable environment that is forgotten when its construct is
    left, and a class is its FLATTENED field table (own declarations, then the tables of the parents in order);
    the fields of a parent are in scope from the end of that parent's reference on (so for the arguments of the
    later parents of the same list). *)
Theorem C05_resolution_partial : forall files n l,
    forallb frag_stmt l = true ->
    forallb resolved (fst (spec_stmts 0 env0 l)) = true ->
    s_bad (snd (iterM (index_stmt files n) l st0)) = false ->
    rev (s_uses (snd (iterM (index_stmt files n) l st0))) = fst (spec_stmts 0 env0 l) /\
    nf (snd (iterM (index_stmt files n) l st0)) = [].
Proof. exact file_resolution. Qed.
Check C05_resolution_partial : forall files n l,
    forallb frag_stmt l = true ->
    forallb resolved (fst (spec_stmts 0 env0 l)) = true ->
    s_bad (snd (iterM (index_stmt files n) l st0)) = false ->
    rev (s_uses (snd (iterM (index_stmt files n) l st0))) = fst (spec_stmts 0 env0 l) /\
    nf (snd (iterM (index_stmt files n) l st0)) = [].
Print Assumptions C05_resolution_partial.

(** Non-vacuity (serialisation of the REAL parse of):
      class A<int p, string q = "x"> { int f = p; defvar v = !add(f, p); let f = v; string g = q; }
      def d { A x = A<1>; int y = 2; }
      multiclass M<int a> { def X { int w = a; } }
      defm Z : M<3>;
      defset list<A> S = { def e1 { int k = 1; } }
      foreach i = [1, 2] in { def D#i { int z = i; } }
      defvar h = S;
    in the fragment, well-scoped, enough fuel; 13 uses; the last one (`S`) resolves to the defset name. *)
Definition ex_file : list stmt :=
  [(SClass (mkId (mkR 0 6 7) [65]) (Some [(TArg TyInt (mkId (mkR 0 12 13) [112]) None); (TArg TyString (mkId (mkR 0 22 23) [113]) (Some (Val (mkR 0 26 29) [(Inner SString [])])))]) [] [(IField TyInt (mkId (mkR 0 37 38) [102]) (Some (Val (mkR 0 41 42) [(Inner (SId (mkId (mkR 0 41 42) [112])) [])]))); (IDefvar (mkId (mkR 0 51 52) [118]) (Val (mkR 0 55 65) [(Inner (SBang XAdd None [(Val (mkR 0 60 61) [(Inner (SId (mkId (mkR 0 60 61) [102])) [])]); (Val (mkR 0 63 64) [(Inner (SId (mkId (mkR 0 63 64) [112])) [])])] (mkR 0 55 65)) [])])); (ILet (mkId (mkR 0 71 72) [102]) (Val (mkR 0 75 76) [(Inner (SId (mkId (mkR 0 75 76) [118])) [])])); (IField TyString (mkId (mkR 0 85 86) [103]) (Some (Val (mkR 0 89 90) [(Inner (SId (mkId (mkR 0 89 90) [113])) [])])))]); (SDef (Some (Val (mkR 0 98 100) [(Inner (SId (mkId (mkR 0 98 99) [100])) [])])) (mkR 0 94 127) [] [(IField (TyClass (mkId (mkR 0 102 103) [65])) (mkId (mkR 0 104 105) [120]) (Some (Val (mkR 0 108 112) [(Inner (SClassVal (mkId (mkR 0 108 109) [65]) [(APos (Val (mkR 0 110 111) [(Inner SInt [])]) (mkR 0 110 111))] (mkR 0 108 112)) [])]))); (IField TyInt (mkId (mkR 0 118 119) [121]) (Some (Val (mkR 0 122 123) [(Inner SInt [])])))]); (SMulticlass (mkId (mkR 0 138 139) [77]) (Some [(TArg TyInt (mkId (mkR 0 144 145) [97]) None)]) [] [(SDef (Some (Val (mkR 0 153 155) [(Inner (SId (mkId (mkR 0 153 154) [88])) [])])) (mkR 0 149 170) [] [(IField TyInt (mkId (mkR 0 161 162) [119]) (Some (Val (mkR 0 165 166) [(Inner (SId (mkId (mkR 0 165 166) [97])) [])])))])]); (SDefm (Some (Val (mkR 0 177 179) [(Inner (SId (mkId (mkR 0 177 178) [90])) [])])) (mkR 0 172 187) [(CRef (mkId (mkR 0 181 182) [77]) [(APos (Val (mkR 0 183 184) [(Inner SInt [])]) (mkR 0 183 184))] (mkR 0 181 185))]); (SDefset (TyList (TyClass (mkId (mkR 0 199 200) [65]))) (mkId (mkR 0 202 203) [83]) [(SDef (Some (Val (mkR 0 212 215) [(Inner (SId (mkId (mkR 0 212 214) [101; 49])) [])])) (mkR 0 208 230) [] [(IField TyInt (mkId (mkR 0 221 222) [107]) (Some (Val (mkR 0 225 226) [(Inner SInt [])])))])]); (SForeach (mkId (mkR 0 240 241) [105]) (FeValue (Val (mkR 0 244 251) [(Inner (SList [(Val (mkR 0 245 246) [(Inner SInt [])]); (Val (mkR 0 248 249) [(Inner SInt [])])]) [])])) [(SDef (Some (Val (mkR 0 260 264) [(Inner (SId (mkId (mkR 0 260 261) [68])) []); (Inner (SId (mkId (mkR 0 262 263) [105])) [])])) (mkR 0 256 279) [] [(IField TyInt (mkId (mkR 0 270 271) [122]) (Some (Val (mkR 0 274 275) [(Inner (SId (mkId (mkR 0 274 275) [105])) [])])))])]); (SDefvar (mkId (mkR 0 288 289) [104]) (Val (mkR 0 292 293) [(Inner (SId (mkId (mkR 0 292 293) [83])) [])]))].
Example C05_resolution_nonvacuous :
  forallb frag_stmt ex_file = true /\ forallb resolved (fst (spec_stmts 0 env0 ex_file)) = true /\
  s_bad (snd (iterM (index_stmt [] 80) ex_file st0)) = false /\
  length (fst (spec_stmts 0 env0 ex_file)) = 13%nat /\
  last (fst (spec_stmts 0 env0 ex_file)) (mkR 0 0 0, None) = (mkR 0 292 293, Some (mkR 0 202 203)).
Proof. vm_compute. repeat split; reflexivity. Qed.

(** ... and with inheritance (REAL parse of):
      class B { int w = 1; }
      class S<int n> : B { int bytes = n; }
      class A<int a> { int al = a; }
      class W : S<4>, A<bytes> { int z = !add(w, al); }
      def d : W { int q = bytes; }
      class R : R;
    11 uses: `bytes` in `A<bytes>` (110..115) is the field of S inherited through the EARLIER parent of the same
    list; `w` (132) is the field of B reached through S; `bytes` in the def (162..167) is reached through W; the
    reference of R to itself resolves to R (and is reported, not attached). *)
Definition ex_inherit : list stmt :=
  [(SClass (mkId (mkR 0 6 7) [66]) None [] [(IField TyInt (mkId (mkR 0 14 15) [119]) (Some (Val (mkR 0 18 19) [(Inner SInt [])])))]); (SClass (mkId (mkR 0 29 30) [83]) (Some [(TArg TyInt (mkId (mkR 0 35 36) [110]) None)]) [(CRef (mkId (mkR 0 40 41) [66]) [] (mkR 0 40 42))] [(IField TyInt (mkId (mkR 0 48 53) [98; 121; 116; 101; 115]) (Some (Val (mkR 0 56 57) [(Inner (SId (mkId (mkR 0 56 57) [110])) [])])))]); (SClass (mkId (mkR 0 67 68) [65]) (Some [(TArg TyInt (mkId (mkR 0 73 74) [97]) None)]) [] [(IField TyInt (mkId (mkR 0 82 84) [97; 108]) (Some (Val (mkR 0 87 88) [(Inner (SId (mkId (mkR 0 87 88) [97])) [])])))]); (SClass (mkId (mkR 0 98 99) [87]) None [(CRef (mkId (mkR 0 102 103) [83]) [(APos (Val (mkR 0 104 105) [(Inner SInt [])]) (mkR 0 104 105))] (mkR 0 102 106)); (CRef (mkId (mkR 0 108 109) [65]) [(APos (Val (mkR 0 110 115) [(Inner (SId (mkId (mkR 0 110 115) [98; 121; 116; 101; 115])) [])]) (mkR 0 110 115))] (mkR 0 108 117))] [(IField TyInt (mkId (mkR 0 123 124) [122]) (Some (Val (mkR 0 127 138) [(Inner (SBang XAdd None [(Val (mkR 0 132 133) [(Inner (SId (mkId (mkR 0 132 133) [119])) [])]); (Val (mkR 0 135 137) [(Inner (SId (mkId (mkR 0 135 137) [97; 108])) [])])] (mkR 0 127 138)) [])])))]); (SDef (Some (Val (mkR 0 146 148) [(Inner (SId (mkId (mkR 0 146 147) [100])) [])])) (mkR 0 142 171) [(CRef (mkId (mkR 0 150 151) [87]) [] (mkR 0 150 152))] [(IField TyInt (mkId (mkR 0 158 159) [113]) (Some (Val (mkR 0 162 167) [(Inner (SId (mkId (mkR 0 162 167) [98; 121; 116; 101; 115])) [])])))]); (SClass (mkId (mkR 0 177 178) [82]) None [(CRef (mkId (mkR 0 181 182) [82]) [] (mkR 0 181 182))] [])].
Example C05_resolution_inheritance_nonvacuous :
  forallb frag_stmt ex_inherit = true /\ forallb resolved (fst (spec_stmts 0 env0 ex_inherit)) = true /\
  s_bad (snd (iterM (index_stmt [] 80) ex_inherit st0)) = false /\
  length (fst (spec_stmts 0 env0 ex_inherit)) = 11%nat /\
  nth 5 (fst (spec_stmts 0 env0 ex_inherit)) (mkR 0 0 0, None) = (mkR 0 110 115, Some (mkR 0 48 53)) /\
  nth 6 (fst (spec_stmts 0 env0 ex_inherit)) (mkR 0 0 0, None) = (mkR 0 132 133, Some (mkR 0 14 15)) /\
  nth 9 (fst (spec_stmts 0 env0 ex_inherit)) (mkR 0 0 0, None) = (mkR 0 162 167, Some (mkR 0 48 53)) /\
  rev (s_uses (snd (iterM (index_stmt [] 80) ex_inherit st0))) = fst (spec_stmts 0 env0 ex_inherit).
Proof. vm_compute. repeat split; reflexivity. Qed.

(** C05_resolution for a WORKSPACE (partial: no field access `v.f`; includes at the top level of a file only).
    [spec_uses w] is the declarative resolver on the statements of the root file in which every `include` at the
    top level stands for the statements of the included file, the first time that file is reached (a file read
    before - the root included - is skipped; an include that names no file of the workspace is skipped):
    [ScopeSpec.flat_file] / [spec_flat]; every range carries the number of the file it is written in.  The model
    pushes the file on its trace, marks it indexed, indexes its statements in the CURRENT scope and pops the file.
    For every workspace whose (expanded) statements are in the fragment [frag_ws] (the predicate the check evaluates)
    and well scoped according to the resolver: the uses the model records, in order, each with the file and range
    of the declaration it resolves to, are exactly the resolver's list, and no "not found" diagnostic exists.
    (No hypothesis about the model's panic / fuel flag: group bridge's IndexerTotal.index_ws_total shows that
    [index_ws] never sets it.) *)
Theorem C05_resolution_workspace_partial : forall w,
    frag_ws w = true -> well_scoped w = true ->
    rev (s_uses (index_ws w)) = spec_uses w /\ nf (index_ws w) = [].
Proof. intros w Hf HR. apply workspace_resolution; auto. apply index_ws_total. Qed.
Check C05_resolution_workspace_partial : forall w,
    frag_ws w = true -> well_scoped w = true ->
    rev (s_uses (index_ws w)) = spec_uses w /\ nf (index_ws w) = [].
Print Assumptions C05_resolution_workspace_partial.

(** Non-vacuity (REAL parse of a workspace of three files):
      main.td:  include "a.td"  include "b.td"  include "a.td"  def m : A { int q = x; defvar v = b; }
      a.td:     class A { int x = 1; }
      b.td:     include "a.td"  def b : A;
    a.td is read once (the includes in b.td and the second one in main.td are skipped); 4 uses: `A` in b.td (file 2)
    and in main.td (file 0) resolve to the class in a.td (file 1), `x` to its field, `b` to the def in b.td. *)
Definition ex_ws : workspace :=
  (mkWs [[(SInclude (mkR 0 0 15) (Some 1)); (SInclude (mkR 0 15 30) (Some 2)); (SInclude (mkR 0 30 45) (Some 1)); (SDef (Some (Val (mkR 0 49 51) [(Inner (SId (mkId (mkR 0 49 50) [109])) [])])) (mkR 0 45 84) [(CRef (mkId (mkR 0 53 54) [65]) [] (mkR 0 53 55))] [(IField TyInt (mkId (mkR 0 61 62) [113]) (Some (Val (mkR 0 65 66) [(Inner (SId (mkId (mkR 0 65 66) [120])) [])]))); (IDefvar (mkId (mkR 0 75 76) [118]) (Val (mkR 0 79 80) [(Inner (SId (mkId (mkR 0 79 80) [98])) [])]))])]; [(SClass (mkId (mkR 1 6 7) [65]) None [] [(IField TyInt (mkId (mkR 1 14 15) [120]) (Some (Val (mkR 1 18 19) [(Inner SInt [])])))])]; [(SInclude (mkR 2 0 15) (Some 1)); (SDef (Some (Val (mkR 2 19 21) [(Inner (SId (mkId (mkR 2 19 20) [98])) [])])) (mkR 2 15 26) [(CRef (mkId (mkR 2 23 24) [65]) [] (mkR 2 23 24))] [])]] []).
Example C05_resolution_workspace_nonvacuous :
  frag_ws ex_ws = true /\ well_scoped ex_ws = true /\
  spec_uses ex_ws = [(mkR 2 23 24, Some (mkR 1 6 7)); (mkR 0 53 54, Some (mkR 1 6 7));
                     (mkR 0 65 66, Some (mkR 1 14 15)); (mkR 0 79 80, Some (mkR 2 19 20))] /\
  rev (s_uses (index_ws ex_ws)) = spec_uses ex_ws.
Proof. vm_compute. repeat split; reflexivity. Qed.

(** The model's `find_field` / `is_subclass_of` are the plain depth-first searches; the code (since 1b571ae) shares
    one set of visited ancestors over the whole search, so that an ancestor reached along several inheritance
    paths is searched once.  [find_field_in] / [is_subclass_of_in] (FieldLookupVisited.v) are transcriptions of
    that code; whenever parents are older records ([REC]: what ParentClassList::index maintains, part of the
    invariant of C05_resolution) and the fuel exceeds the record number, both versions return the same answer. *)
Theorem C05_field_lookup_visited_set : forall recs nm, REC recs -> forall fuel id,
    (N.to_nat id < fuel)%nat -> find_field_visited fuel recs id nm = find_field fuel recs id nm.
Proof. exact find_field_visited_eq. Qed.
Check C05_field_lookup_visited_set : forall recs nm, REC recs -> forall fuel id,
    (N.to_nat id < fuel)%nat -> find_field_visited fuel recs id nm = find_field fuel recs id nm.
Print Assumptions C05_field_lookup_visited_set.
Theorem C05_subclass_visited_set : forall recs other, REC recs -> forall fuel id,
    (N.to_nat id < fuel)%nat -> is_subclass_of_visited fuel recs id other = is_subclass_of fuel recs id other.
Proof. exact is_subclass_of_visited_eq. Qed.
Check C05_subclass_visited_set : forall recs other, REC recs -> forall fuel id,
    (N.to_nat id < fuel)%nat -> is_subclass_of_visited fuel recs id other = is_subclass_of fuel recs id other.
Print Assumptions C05_subclass_visited_set.
(** non-vacuity: a diamond  0 <- 1, 0 <- 2, {1, 2} <- 3  whose top has the field *)
Example C05_visited_set_nonvacuous :
  let recs := [mkRec [65] true [] [([102], 7)] [] (mkR 0 0 1); mkRec [66] true [] [] [0] (mkR 0 2 3);
               mkRec [67] true [] [] [0] (mkR 0 4 5); mkRec [68] true [] [] [1; 2] (mkR 0 6 7)] in
  find_field_in 5 recs 3 [103] [] = (None, [2; 0; 1]) /\ find_field_visited 5 recs 3 [102] = Some 7 /\
  find_field 5 recs 3 [102] = Some 7.
Proof. vm_compute. repeat split; reflexivity. Qed.

(** C05_resolution WITH FIELD ACCESS `v.f` (partial: includes at the top level of a file only; the resolver knows
    the record type of `v` only where the rules below give it one).
    ScopeSpecT.v is the declarative resolver of ScopeSpec.v extended with what a field access needs: next to every
    frame the environment records what is known about the TYPE of each declaration (nothing / the k-th class /
    the k-th def, in the order of declaration / a list of such), and the class and def tables carry, next to the
    flattened field table, the types of those fields.  A type is known for: a field or template argument declared with
    a class type `A x` or a list of it; a field inherited from a parent class (the type it was declared with there) and a
    field re-declared by `let` (the type of the field it re-declares); a def name used as a value; a class value
    `A<..>`; the result of `.f` on a value of a known record type (the declared type of f - so accesses chain, also
    through defs) and of a single subscript `l[i]` on a value of a known list type; a defvar whose initialiser is one
    simple value with such suffixes; the variable of a foreach over such a value.  A suffix `.f` on a value of a known
    record type denotes the field f of the flattened table of that class / def (own fields, then the parents' in
    order); on any other value - a bang operator (`!cast<A>(..)`), the variable of `!foreach` / `!filter` / `!foldl`, a
    DEFSET name and what is derived from it, a pasted value - the resolver lists the use as UNRESOLVED, so that
    [well_scoped] does not hold and the theorem does not speak about that workspace (the check counts these:
    evidence scope_spec.field_accesses_abstained, 1 - 3 % of the generated field accesses, all on defset elements).
    For every workspace whose expanded statements are in the fragment [ScopeSpecT.frag_ws] (every value with
    any suffixes) and all of whose uses the typed resolver resolves: the uses the model records, in order, each
    with the file and range of its declaration - identifiers, classes, multiclasses AND fields reached through
    `v.f` - are exactly the resolver's list, and there is no "not found" diagnostic.  No hypothesis on the model's
    panic / fuel flag (IndexerTotal.index_ws_total).  Proofs: ScopeSimT / ScopeSimRecT / ScopeSimWsT (typed copies of
    the development above; invariants: the class / def tables of the environment are aligned position by position
    with the model's name maps, the record of a closed class / def has the recorded field table AND its fields the
    recorded types, every typed local of the environment is a leaf of that type in the model). *)
Theorem C05_resolution_field_access_partial : forall w,
    ScopeSpecT.frag_ws w = true -> ScopeSpecT.well_scoped w = true ->
    rev (s_uses (index_ws w)) = ScopeSpecT.spec_uses w /\ ScopeSimT.nf (index_ws w) = [].
Proof. intros w Hf HR. apply ScopeSimWsT.workspace_resolution; auto. apply index_ws_total. Qed.
Check C05_resolution_field_access_partial : forall w,
    ScopeSpecT.frag_ws w = true -> ScopeSpecT.well_scoped w = true ->
    rev (s_uses (index_ws w)) = ScopeSpecT.spec_uses w /\ ScopeSimT.nf (index_ws w) = [].
Print Assumptions C05_resolution_field_access_partial.

(** Non-vacuity (REAL parse of a workspace of two files):
      main.td:  include "a.td"
                class B<A a> { A m = a; int y = a.x; int z = m.x; }
                def d : A;
                defvar v = d;
                def e { int p = d.x; int q = v.x; }
      a.td:     class A { int x = 1; }
    13 uses; the four field accesses - through a template argument of class type (49..50), a field of class type
    (62..63), a def name (110..111) and a defvar initialised with that def (123..124) - all resolve to the field x of
    class A in the OTHER file (file 1, 14..15). *)
Definition ex_fa : workspace :=
  (mkWs [[(SInclude (mkR 0 0 15) (Some 1)); (SClass (mkId (mkR 0 21 22) [66]) (Some [(TArg (TyClass (mkId (mkR 0 23 24) [65])) (mkId (mkR 0 25 26) [97]) None)]) [] [(IField (TyClass (mkId (mkR 0 30 31) [65])) (mkId (mkR 0 32 33) [109]) (Some (Val (mkR 0 36 37) [(Inner (SId (mkId (mkR 0 36 37) [97])) [])]))); (IField TyInt (mkId (mkR 0 43 44) [121]) (Some (Val (mkR 0 47 50) [(Inner (SId (mkId (mkR 0 47 48) [97])) [(SufField (mkId (mkR 0 49 50) [120]) (mkR 0 48 50))])]))); (IField TyInt (mkId (mkR 0 56 57) [122]) (Some (Val (mkR 0 60 63) [(Inner (SId (mkId (mkR 0 60 61) [109])) [(SufField (mkId (mkR 0 62 63) [120]) (mkR 0 61 63))])])))]); (SDef (Some (Val (mkR 0 71 73) [(Inner (SId (mkId (mkR 0 71 72) [100])) [])])) (mkR 0 67 78) [(CRef (mkId (mkR 0 75 76) [65]) [] (mkR 0 75 76))] []); (SDefvar (mkId (mkR 0 85 86) [118]) (Val (mkR 0 89 90) [(Inner (SId (mkId (mkR 0 89 90) [100])) [])])); (SDef (Some (Val (mkR 0 96 98) [(Inner (SId (mkId (mkR 0 96 97) [101])) [])])) (mkR 0 92 128) [] [(IField TyInt (mkId (mkR 0 104 105) [112]) (Some (Val (mkR 0 108 111) [(Inner (SId (mkId (mkR 0 108 109) [100])) [(SufField (mkId (mkR 0 110 111) [120]) (mkR 0 109 111))])]))); (IField TyInt (mkId (mkR 0 117 118) [113]) (Some (Val (mkR 0 121 124) [(Inner (SId (mkId (mkR 0 121 122) [118])) [(SufField (mkId (mkR 0 123 124) [120]) (mkR 0 122 124))])])))])]; [(SClass (mkId (mkR 1 6 7) [65]) None [] [(IField TyInt (mkId (mkR 1 14 15) [120]) (Some (Val (mkR 1 18 19) [(Inner SInt [])])))])]] []).
Example C05_resolution_field_access_nonvacuous :
  ScopeSpecT.frag_ws ex_fa = true /\ ScopeSpecT.well_scoped ex_fa = true /\
  length (ScopeSpecT.spec_uses ex_fa) = 13%nat /\
  nth 4 (ScopeSpecT.spec_uses ex_fa) (mkR 0 0 0, None) = (mkR 0 49 50, Some (mkR 1 14 15)) /\
  nth 6 (ScopeSpecT.spec_uses ex_fa) (mkR 0 0 0, None) = (mkR 0 62 63, Some (mkR 1 14 15)) /\
  nth 10 (ScopeSpecT.spec_uses ex_fa) (mkR 0 0 0, None) = (mkR 0 110 111, Some (mkR 1 14 15)) /\
  nth 12 (ScopeSpecT.spec_uses ex_fa) (mkR 0 0 0, None) = (mkR 0 123 124, Some (mkR 1 14 15)) /\
  rev (s_uses (index_ws ex_fa)) = ScopeSpecT.spec_uses ex_fa.
Proof. vm_compute. repeat split; reflexivity. Qed.

(** Non-vacuity of the typed part beyond declared types (REAL parse):
      class A { int x = 1; }
      class B { A a; list<A> l = []; }
      class C : B { let a = ?; int p = a.x; int q = l[0].x; }
      def d : A;
      def e : B { let a = d; }
      def g { int r = e.a.x; }
      class H<list<A> ls> { int t = ls[0].x; }
      def k : B;
      foreach i = k.l in { def : A { let x = i.x; } }
    25 uses; the five accesses to x - through an INHERITED field re-declared by a `let` (91..92), an element of an inherited
    list field (107..108), a CHAIN through a def and its re-declared field (168..169), an element of a template argument
    of list type (209..210) and the variable of a foreach over a field access (266..267) - all resolve to A's field x. *)
Definition ex_fa2 : workspace :=
  (mkWs [[(SClass (mkId (mkR 0 6 7) [65]) None [] [(IField TyInt (mkId (mkR 0 14 15) [120]) (Some (Val (mkR 0 18 19) [(Inner SInt [])])))]); (SClass (mkId (mkR 0 29 30) [66]) None [] [(IField (TyClass (mkId (mkR 0 33 34) [65])) (mkId (mkR 0 35 36) [97]) None); (IField (TyList (TyClass (mkId (mkR 0 43 44) [65]))) (mkId (mkR 0 46 47) [108]) (Some (Val (mkR 0 50 52) [(Inner (SList []) [])])))]); (SClass (mkId (mkR 0 62 63) [67]) None [(CRef (mkId (mkR 0 66 67) [66]) [] (mkR 0 66 68))] [(ILet (mkId (mkR 0 74 75) [97]) (Val (mkR 0 78 79) [(Inner SUninit [])])); (IField TyInt (mkId (mkR 0 85 86) [112]) (Some (Val (mkR 0 89 92) [(Inner (SId (mkId (mkR 0 89 90) [97])) [(SufField (mkId (mkR 0 91 92) [120]) (mkR 0 90 92))])]))); (IField TyInt (mkId (mkR 0 98 99) [113]) (Some (Val (mkR 0 102 108) [(Inner (SId (mkId (mkR 0 102 103) [108])) [(SufSlice true); (SufField (mkId (mkR 0 107 108) [120]) (mkR 0 106 108))])])))]); (SDef (Some (Val (mkR 0 116 118) [(Inner (SId (mkId (mkR 0 116 117) [100])) [])])) (mkR 0 112 123) [(CRef (mkId (mkR 0 120 121) [65]) [] (mkR 0 120 121))] []); (SDef (Some (Val (mkR 0 127 129) [(Inner (SId (mkId (mkR 0 127 128) [101])) [])])) (mkR 0 123 148) [(CRef (mkId (mkR 0 131 132) [66]) [] (mkR 0 131 133))] [(ILet (mkId (mkR 0 139 140) [97]) (Val (mkR 0 143 144) [(Inner (SId (mkId (mkR 0 143 144) [100])) [])]))]); (SDef (Some (Val (mkR 0 152 154) [(Inner (SId (mkId (mkR 0 152 153) [103])) [])])) (mkR 0 148 173) [] [(IField TyInt (mkId (mkR 0 160 161) [114]) (Some (Val (mkR 0 164 169) [(Inner (SId (mkId (mkR 0 164 165) [101])) [(SufField (mkId (mkR 0 166 167) [97]) (mkR 0 165 167)); (SufField (mkId (mkR 0 168 169) [120]) (mkR 0 167 169))])])))]); (SClass (mkId (mkR 0 179 180) [72]) (Some [(TArg (TyList (TyClass (mkId (mkR 0 186 187) [65]))) (mkId (mkR 0 189 191) [108; 115]) None)]) [] [(IField TyInt (mkId (mkR 0 199 200) [116]) (Some (Val (mkR 0 203 210) [(Inner (SId (mkId (mkR 0 203 205) [108; 115])) [(SufSlice true); (SufField (mkId (mkR 0 209 210) [120]) (mkR 0 208 210))])])))]); (SDef (Some (Val (mkR 0 218 220) [(Inner (SId (mkId (mkR 0 218 219) [107])) [])])) (mkR 0 214 225) [(CRef (mkId (mkR 0 222 223) [66]) [] (mkR 0 222 223))] []); (SForeach (mkId (mkR 0 233 234) [105]) (FeValue (Val (mkR 0 237 241) [(Inner (SId (mkId (mkR 0 237 238) [107])) [(SufField (mkId (mkR 0 239 240) [108]) (mkR 0 238 241))])])) [(SDef None (mkR 0 246 271) [(CRef (mkId (mkR 0 252 253) [65]) [] (mkR 0 252 254))] [(ILet (mkId (mkR 0 260 261) [120]) (Val (mkR 0 264 267) [(Inner (SId (mkId (mkR 0 264 265) [105])) [(SufField (mkId (mkR 0 266 267) [120]) (mkR 0 265 267))])]))])])]] []).
Example C05_resolution_field_access_nonvacuous2 :
  ScopeSpecT.frag_ws ex_fa2 = true /\ ScopeSpecT.well_scoped ex_fa2 = true /\
  length (ScopeSpecT.spec_uses ex_fa2) = 25%nat /\
  nth 5 (ScopeSpecT.spec_uses ex_fa2) (mkR 0 0 0, None) = (mkR 0 91 92, Some (mkR 0 14 15)) /\
  nth 7 (ScopeSpecT.spec_uses ex_fa2) (mkR 0 0 0, None) = (mkR 0 107 108, Some (mkR 0 14 15)) /\
  nth 13 (ScopeSpecT.spec_uses ex_fa2) (mkR 0 0 0, None) = (mkR 0 166 167, Some (mkR 0 139 140)) /\
  nth 14 (ScopeSpecT.spec_uses ex_fa2) (mkR 0 0 0, None) = (mkR 0 168 169, Some (mkR 0 14 15)) /\
  nth 17 (ScopeSpecT.spec_uses ex_fa2) (mkR 0 0 0, None) = (mkR 0 209 210, Some (mkR 0 14 15)) /\
  nth 24 (ScopeSpecT.spec_uses ex_fa2) (mkR 0 0 0, None) = (mkR 0 266 267, Some (mkR 0 14 15)) /\
  rev (s_uses (index_ws ex_fa2)) = ScopeSpecT.spec_uses ex_fa2.
Proof. vm_compute. repeat split; reflexivity. Qed.
