(** C05 Name resolution: go-to-definition and references follow TableGen scoping.
    Theorems about the executable model of crates/ide/src/index.rs, index/scope.rs, index/context.rs,
    index/bang_operator.rs and symbol_map*.rs (coq/model/Scope.v, BangOps.v, Indexer.v).
    Only statements; proofs are in coq/proofs/. *)
From Coq Require Import List NArith Bool.
From TG.Model Require Import CoreAst Scope BangOps Indexer.
From TG.Proofs Require Import ScopeBalance ScopeFrame.
Import ListNotations.
Open Scope N_scope.

(** Every statement other than `defvar` / `include` - class, def, defm, defset, foreach, if, let, multiclass,
    assert, dump - leaves the scope stack exactly as it found it (it pops what it pushes, on every path,
    whatever optional parts are present), for ALL programs, states and fuels. *)
Theorem C05_block_scopes_end : forall files n x s,
    block_like x = true -> s_scopes (snd (index_stmt files n x s)) = s_scopes s.
Proof. exact scopes_balanced. Qed.
Check C05_block_scopes_end : forall files n x s,
    block_like x = true -> s_scopes (snd (index_stmt files n x s)) = s_scopes s.
Print Assumptions C05_block_scopes_end.

(** Nothing declared inside such a construct (template arguments, fields, defvars, foreach and operator
    variables) is visible to the local lookup after it: `Scopes::find_local` answers for EVERY name what it
    answered before the statement. *)
Theorem C05_locals_do_not_leak : forall files n x s nm,
    block_like x = true -> current_record_id s = None -> mc_scopes_valid s ->
    find_local (snd (index_stmt files n x s)) nm = find_local s nm.
Proof. exact locals_do_not_leak. Qed.
Check C05_locals_do_not_leak : forall files n x s nm,
    block_like x = true -> current_record_id s = None -> mc_scopes_valid s ->
    find_local (snd (index_stmt files n x s)) nm = find_local s nm.
Print Assumptions C05_locals_do_not_leak.

(** C05_out_of_scope (partial: the full statement also covers uses after a record body ended through a field
    access, which needs the typed resolver of ScopeSpec): a name that did not resolve before a construct and
    that the construct did not define as a global def or defset does not resolve after it ... *)
Theorem C05_out_of_scope_partial : forall files n x s nm,
    block_like x = true -> current_record_id s = None -> mc_scopes_valid s ->
    resolve_id s nm = None ->
    find_def (snd (index_stmt files n x s)) nm = None -> find_defset (snd (index_stmt files n x s)) nm = None ->
    resolve_id (snd (index_stmt files n x s)) nm = None.
Proof. exact out_of_scope_unresolved. Qed.
Check C05_out_of_scope_partial : forall files n x s nm,
    block_like x = true -> current_record_id s = None -> mc_scopes_valid s ->
    resolve_id s nm = None ->
    find_def (snd (index_stmt files n x s)) nm = None -> find_defset (snd (index_stmt files n x s)) nm = None ->
    resolve_id (snd (index_stmt files n x s)) nm = None.
Print Assumptions C05_out_of_scope_partial.

(** ... and a use of a name that does not resolve yields no definition (nothing is recorded at the use) and
    exactly one "symbol not found" diagnostic on the range of the use, in the current file. *)
Theorem C05_unresolved_reported : forall n i s,
    resolve_id s (i_name i) = None -> name_eqb (i_name i) name_NAME = false ->
    let loc := mkR (current_file s) (r_lo (i_rng i)) (r_hi (i_rng i)) in
    let '(o, s') := index_simple (S n) (SId i) s in
    o = None /\ s_diags s' = (loc, DSymbolNotFound) :: s_diags s /\ s_refs s' = s_refs s /\ s_pos s' = s_pos s.
Proof. exact unresolved_use_reported. Qed.
Check C05_unresolved_reported : forall n i s,
    resolve_id s (i_name i) = None -> name_eqb (i_name i) name_NAME = false ->
    let loc := mkR (current_file s) (r_lo (i_rng i)) (r_hi (i_rng i)) in
    let '(o, s') := index_simple (S n) (SId i) s in
    o = None /\ s_diags s' = (loc, DSymbolNotFound) :: s_diags s /\ s_refs s' = s_refs s /\ s_pos s' = s_pos s.
Print Assumptions C05_unresolved_reported.

(** Non-vacuity: the hypotheses of C05_out_of_scope_partial hold in a non-trivial situation - the root scope
    after `defvar g = 1;`, the statement `foreach i = 0-1 in { defvar x = i; }`, the names i and x declared
    inside: neither resolves afterwards, while g still does. *)
Definition ex_id (lo hi c : N) : ident := mkId (mkR 0 lo hi) [c].
Definition ex_int (lo hi : N) : value := Val (mkR 0 lo hi) [Inner SInt []].
Definition ex_use (i : ident) : value := Val (i_rng i) [Inner (SId i) []].
Definition ex_pre : st := snd (index_stmt [] 9 (SDefvar (ex_id 7 8 103) (ex_int 11 12)) st0).
Definition ex_foreach : stmt :=
  SForeach (ex_id 22 23 105) FeRange [SDefvar (ex_id 41 42 120) (ex_use (ex_id 45 46 105))].
Example C05_out_of_scope_nonvacuous :
  block_like ex_foreach = true /\ current_record_id ex_pre = None /\ mc_scopes_valid ex_pre /\
  resolve_id ex_pre [105] = None /\ resolve_id ex_pre [120] = None /\ resolve_id ex_pre [103] <> None /\
  find_def (snd (index_stmt [] 9 ex_foreach ex_pre)) [105] = None /\
  find_defset (snd (index_stmt [] 9 ex_foreach ex_pre)) [105] = None /\
  s_refs (snd (index_stmt [] 9 ex_foreach ex_pre)) <> [] /\
  resolve_id (snd (index_stmt [] 9 ex_foreach ex_pre)) [103] <> None.
Proof.
  repeat split; try (vm_compute; congruence); try reflexivity.
  intros c mid [<-|[]] E; vm_compute in E; discriminate.
Qed.
