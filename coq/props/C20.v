(** Property C20: the completion vocabulary is closed under the server's own lexer and parser.
    Only statements here; proofs in TG.Proofs.C20Proofs.  All tables ([offered_*], [spelling_table],
    [bangop_table], [grammar_prog], [dispatch_arms], [cls_*]) are regenerated from the current source. *)
From Coq Require Import List NArith Bool String.
From TG.Gen Require Import GenTokens GenLexTables GenCompletion GenGrammar GenAst.
From TG.Model Require Import Chars Lexer Tree GInterp Completion.
From TG.Proofs Require Import C20Proofs.
Import ListNotations.
Close Scope string_scope.
Open Scope list_scope.
Open Scope N_scope.

(** every keyword, type name and boolean literal offered lexes as exactly one token of the kind its
    spelling denotes (T! macro), which is neither [Id] nor [Error] *)
Theorem C20_keywords_lex :
  forall w, In w (offered_keywords ++ offered_types ++ offered_values) -> keyword_ok w.
Proof. exact C20_keywords_lex_proof. Qed.
Check C20_keywords_lex :
  forall w, In w (offered_keywords ++ offered_types ++ offered_values) ->
  exists k, lookup spelling_table w = Some k /\ lex_text w = [(k, None, w); (T_Eof, None, [])] /\ k <> T_Id /\ k <> T_Error.
Print Assumptions C20_keywords_lex.

(** every statement keyword offered at file level starts a statement the parser model accepts: some
    continuation parses with zero errors and the first top-level statement is a Statement node whose first
    token is that keyword *)
Theorem C20_keywords_start : forall w, In w offered_keywords -> starts_statement w.
Proof. exact C20_keywords_start_proof. Qed.
Check C20_keywords_start :
  forall w, In w offered_keywords ->
  exists rest fuel t st stmt,
    parse_with fuel grammar_prog grammar_entry (w ++ rest) = ParseOk t [] st /\
    first_stmt t = Some stmt /\ In (kind_of stmt) statement_kinds /\ first_leaf_text stmt = Some w.
Print Assumptions C20_keywords_start.

(** every offered bang operator [o], outside the known class, makes `!o` exactly one operator token (of the
    kind the T! macro gives to `!o` when it has one).  Full statement (refuted, see TG.Props.C20Known):
      forall o, In o offered_bangops -> bangop_ok o *)
Theorem C20_offered_lexes_outside_known :
  forall o, In o offered_bangops -> ~ In o known_offered_not_lexed -> bangop_ok o.
Proof. exact C20_offered_lexes_proof. Qed.
Check C20_offered_lexes_outside_known :
  forall o, In o offered_bangops -> ~ In o known_offered_not_lexed ->
  exists k, lex_text (bang_trigger ++ o) = [(k, None, bang_trigger ++ o); (T_Eof, None, [])] /\
            is_bang_operator k || is_cond_operator k = true /\
            (forall k', lookup spelling_table (bang_trigger ++ o) = Some k' -> k' = k).
Print Assumptions C20_offered_lexes_outside_known.

(** for ALL texts [o]: if the lexer accepts `!o` as one operator token then [o] is offered, outside the
    known class.  Full statement (refuted, see TG.Props.C20Known): the same without the exception *)
Theorem C20_lexed_offered_outside_known :
  forall o k, lexes_as (bang_text o) k -> is_operator_kind k = true ->
              ~ In o known_lexed_not_offered -> In o offered_bangops.
Proof. exact C20_lexed_offered_proof. Qed.
Check C20_lexed_offered_outside_known :
  forall o k, lex_text (bang_trigger ++ o) = [(k, None, bang_trigger ++ o); (T_Eof, None, [])] ->
              is_bang_operator k || is_cond_operator k = true ->
              ~ In o known_lexed_not_offered -> In o offered_bangops.
Print Assumptions C20_lexed_offered_outside_known.

(** the same over the rows of the lexer's operator table, each of which the lexer really accepts *)
Theorem C20_lexer_table_offered_outside_known :
  forall o k, In (o, k) bangop_table ->
    (lexes_as (bang_text o) k /\ is_operator_kind k = true) /\
    (~ In o known_lexed_not_offered -> In o offered_bangops).
Proof. intros o k H. split; [exact (lexer_table_lexes o k H)|exact (C20_lexer_table_offered_proof o k H)]. Qed.
Print Assumptions C20_lexer_table_offered_outside_known.

(** the known classes are exactly the keys of known_findings.txt (compared by checks/C20.py) *)
Check eq_refl : known_offered_not_lexed = [t "concat"%string; t "log2"%string].
Check eq_refl : known_lexed_not_offered = [t "con"%string; t "cond"%string; t "initialized"%string; t "listflatten"%string; t "repr"%string; t "logtwo"%string].

(** non-vacuity *)
Example C20_offered_outside_known_inhabited :
  In (t "add"%string) offered_bangops /\ ~ In (t "add"%string) known_offered_not_lexed.
Proof. exact offered_outside_known_inhabited. Qed.
Example C20_lexed_outside_known_inhabited :
  lexes_as (bang_text (t "add"%string)) T_XAdd /\ is_operator_kind T_XAdd = true /\ ~ In (t "add"%string) known_lexed_not_offered.
Proof. exact lexed_outside_known_inhabited. Qed.

(** class-name completion in a parent-class position (the grand-parent of the token left of the cursor is a
    ClassRef), for every class-symbol list, tree and offset: exactly one item per class, labelled by its name *)
Theorem C20_classes :
  forall cl tr off p rest,
    ancestors_at tr off = Some (p :: S_ClassRef :: rest) ->
    completion_model cl tr off None = Some (complete_classes cl) /\
    labels (complete_classes cl) = map cs_name cl.
Proof. exact C20_classes_proof. Qed.
Print Assumptions C20_classes.

Theorem C20_classes_trigger :
  forall cl tr off p rest trig,
    ancestors_at tr off = Some (p :: S_ClassRef :: rest) ->
    exists pre, completion_model cl tr off trig = Some (pre ++ complete_classes cl) /\
                (pre = [] \/ pre = bang_operator_items).
Proof. exact C20_classes_trigger_proof. Qed.
Print Assumptions C20_classes_trigger.

(** ... each with one snippet tab stop per template parameter (1..n in order) followed by the final `$0`,
    for every template-argument count n and every name without `$` *)
Theorem C20_class_placeholders :
  forall c, ~ In 36 (cs_name c) ->
    tabstops (class_snippet c) = map N.of_nat (seq 1 (cs_ntargs c)) ++ [0].
Proof. exact C20_class_placeholders_proof. Qed.
Print Assumptions C20_class_placeholders.

Theorem C20_class_item :
  forall c, item_label (class_item c) = cs_name c /\
            exists tail, item_snippet (class_item c) = Some (cs_name c ++ tail).
Proof. exact C20_class_item_proof. Qed.
Print Assumptions C20_class_item.

Example C20_class_snippet_example :
  class_snippet {| cs_name := t "Foo"%string; cs_ntargs := 2 |} = t "Foo<${1}, ${2}>$0"%string /\
  class_snippet {| cs_name := t "Bar"%string; cs_ntargs := 0 |} = t "Bar$0"%string.
Proof. exact class_snippet_example. Qed.
