(** Property C15 — Preprocessor: conditional regions select exactly the enabled tokens.
    Statements only; proofs are in TG.Proofs.PrepConform.
    Vocabulary:
      TG.Model.Prep / PrepRun = the model of crates/syntax/src/preprocessor.rs over the raw token list
        (prep_run raw = the delivered (kind, byte length, taken error) entries up to the first Eof;
         prep_runx = the same with the raw tokens every entry covers; prep_run_macros = macro set at Eof;
         prep_text s = prep_run (raw_lex s));
      TG.Model.PrepSpec = the specification: a well-nested arrangement is a list of [item]s (plain
        token / #define head / conditional with then-items, optional #else else-items, #endif), of any
        depth and length; render_items = its raw token list; items_ok = well-formedness of the pieces;
        select ms items = (macros afterwards, selected tokens) by structural recursion: a region is
        enabled iff its macro is (not) defined, a macro is defined only by an earlier enabled #define;
        disabled = every raw token of the regions not selected; deliver t = what the parser is handed
        for a selected token (kind, byte length, the lexer's message for an Error token);
        partial / render_partial / select_partial = arrangements cut off by the end of the file;
        missing_name dir gap rest = "#directive <trivia>* X", X not an identifier or the end of file.
    T_PreProcessor entries are the trivia tokens into which the preprocessor turns directives and
    skipped regions; the parser never sees them ([not_pp] / [not_trivia] filter them out). *)
From Coq Require Import List NArith Bool.
From TG.Gen Require Import GenTokens.
From TG.Model Require Import Chars Lexer Prep PrepRun PrepSpec.
From TG.Proofs Require Import PrepConform.
Import ListNotations.
Open Scope N_scope.

(** The delivered tokens are exactly the selected ones, in order, followed by Eof; the macro set at
    Eof is the reference evaluation's. *)
Theorem C15_selects : forall items, items_ok items = true ->
  filter not_pp (prep_run (render_items items)) = map deliver (snd (select [] items)) ++ [eof_entry]
  /\ prep_run_macros (render_items items) = fst (select [] items).
Proof. exact PrepConform.C15_selects_proof. Qed.
Check C15_selects : forall items, items_ok items = true ->
  filter not_pp (prep_run (render_items items)) = map deliver (snd (select [] items)) ++ [eof_entry]
  /\ prep_run_macros (render_items items) = fst (select [] items).
Print Assumptions C15_selects.

(** the same for what the parser consumes (non-trivia tokens) *)
Theorem C15_selects_nontrivia : forall items, items_ok items = true ->
  filter not_trivia (prep_run (render_items items))
  = map deliver (filter (fun t => negb (is_trivia (rk t))) (snd (select [] items))) ++ [eof_entry].
Proof. exact PrepConform.C15_selects_nontrivia_proof. Qed.
Check C15_selects_nontrivia : forall items, items_ok items = true ->
  filter not_trivia (prep_run (render_items items))
  = map deliver (filter (fun t => negb (is_trivia (rk t))) (snd (select [] items))) ++ [eof_entry].
Print Assumptions C15_selects_nontrivia.

(** the same for a text whose raw token list is the rendering of a well-nested arrangement *)
Theorem C15_selects_text : forall s items, raw_lex s = render_items items -> items_ok items = true ->
  filter not_pp (prep_text s) = map deliver (snd (select [] items)) ++ [eof_entry].
Proof. exact PrepConform.C15_selects_text_proof. Qed.
Check C15_selects_text : forall s items, raw_lex s = render_items items -> items_ok items = true ->
  filter not_pp (prep_text s) = map deliver (snd (select [] items)) ++ [eof_entry].
Print Assumptions C15_selects_text.

(** Disabled text is invisible: every delivered entry is a T_PreProcessor trivia token, the final Eof,
    or a selected token; every delivered Error entry is a selected raw Error token with its own
    message (disabled branches may contain raw Error tokens and #define heads: no diagnostic and no
    definition stems from them - the latter is the second conjunct of C15_selects). *)
Theorem C15_disabled_invisible : forall items, items_ok items = true ->
  (forall x, In x (prep_run (render_items items)) ->
     entry_kind x = T_PreProcessor \/ x = eof_entry \/ exists t, In t (snd (select [] items)) /\ x = deliver t)
  /\ (forall x, In x (prep_run (render_items items)) -> entry_kind x = T_Error ->
        exists t, In t (snd (select [] items)) /\ rk t = T_Error /\ x = deliver t).
Proof. exact PrepConform.C15_disabled_invisible_proof. Qed.
Check C15_disabled_invisible : forall items, items_ok items = true ->
  (forall x, In x (prep_run (render_items items)) ->
     entry_kind x = T_PreProcessor \/ x = eof_entry \/ exists t, In t (snd (select [] items)) /\ x = deliver t)
  /\ (forall x, In x (prep_run (render_items items)) -> entry_kind x = T_Error ->
        exists t, In t (snd (select [] items)) /\ rk t = T_Error /\ x = deliver t).
Print Assumptions C15_disabled_invisible.

(** every raw token of a disabled region is covered by a T_PreProcessor trivia token *)
Theorem C15_disabled_covered : forall items, items_ok items = true ->
  forall t, In t (disabled [] items) ->
  exists c e, In (T_PreProcessor, c, e) (prep_runx (render_items items)) /\ In t c.
Proof. exact PrepConform.C15_disabled_covered_proof. Qed.
Check C15_disabled_covered : forall items, items_ok items = true ->
  forall t, In t (disabled [] items) ->
  exists c e, In (T_PreProcessor, c, e) (prep_runx (render_items items)) /\ In t c.
Print Assumptions C15_disabled_covered.

(** A conditional left unterminated at the end of the file (after any well-nested prefix): the selected
    tokens are delivered, then exactly one Error "reached EOF without matching #endif", then Eof. *)
Theorem C15_unterminated : forall items p, items_ok items = true -> partial_ok p = true ->
  filter not_pp (prep_run (render_items items ++ render_partial p))
  = map deliver (snd (select [] items) ++ select_partial (fst (select [] items)) p)
    ++ [(T_Error, 0, Some (ErrPrep PEUnterminated)); eof_entry].
Proof. exact PrepConform.C15_unterminated_proof. Qed.
Check C15_unterminated : forall items p, items_ok items = true -> partial_ok p = true ->
  filter not_pp (prep_run (render_items items ++ render_partial p))
  = map deliver (snd (select [] items) ++ select_partial (fst (select [] items)) p)
    ++ [(T_Error, 0, Some (ErrPrep PEUnterminated)); eof_entry].
Print Assumptions C15_unterminated.

(** A directive without its macro name (after any well-nested prefix, in enabled text) is delivered
    as an Error token carrying the directive's message; the prefix is delivered as usual. *)
Theorem C15_missing_name : forall items dir gap rest, items_ok items = true -> missing_name dir gap rest = true ->
  exists pre len post,
    prep_run (render_items items ++ dir :: gap ++ rest)
    = pre ++ (T_Error, len, Some (ErrPrep (missing_name_err dir))) :: post
    /\ filter not_pp pre = map deliver (snd (select [] items)).
Proof. exact PrepConform.C15_missing_name_proof. Qed.
Check C15_missing_name : forall items dir gap rest, items_ok items = true -> missing_name dir gap rest = true ->
  exists pre len post,
    prep_run (render_items items ++ dir :: gap ++ rest)
    = pre ++ (T_Error, len, Some (ErrPrep (missing_name_err dir))) :: post
    /\ filter not_pp pre = map deliver (snd (select [] items)).
Print Assumptions C15_missing_name.

(** * Non-vacuity: the hypotheses hold of non-trivial arrangements (definitions in PrepConform, section 8) *)

(** [ex_nested]: nesting depth 3; an #else at depth 2 inside an enabled branch and one inside a disabled
    branch; #define C and #define D inside disabled branches (neither is defined at Eof, and
    "#ifndef C" is taken afterwards); the raw Error token [ex_bad] inside a disabled branch (not
    delivered), a raw Error token in enabled text (delivered with its message). *)
Example C15_nested_nonvacuous :
  items_ok ex_nested = true
  /\ filter not_pp (prep_run (render_items ex_nested))
     = [(T_Whitespace, 1, None); (T_Id, 2, None); (T_IntVal, 2, None); (T_Id, 3, None); (T_Semi, 1, None);
        (T_Error, 2, Some (ErrLex EInvalidDotDot)); (T_Eof, 0, None)]
  /\ map deliver (snd (select [] ex_nested))
     = [(T_Whitespace, 1, None); (T_Id, 2, None); (T_IntVal, 2, None); (T_Id, 3, None); (T_Semi, 1, None);
        (T_Error, 2, Some (ErrLex EInvalidDotDot))]
  /\ prep_run_macros (render_items ex_nested) = [[65]]
  /\ List.length (disabled [] ex_nested) = 26%nat
  /\ existsb (fun t => tk_eqb (rk t) T_Error) (disabled [] ex_nested) = true
  /\ existsb (fun t => tk_eqb (rk t) T_Define) (disabled [] ex_nested) = true
  /\ existsb (fun t => tk_eqb (rk t) T_Else) (disabled [] ex_nested) = true.
Proof. vm_compute. repeat split; reflexivity. Qed.

(** unterminated conditionals: one cut off inside disabled text (nothing of it is selected), one whose
    else-branch and deeper conditional are enabled (the skipped then-branch contains [ex_bad]) *)
Example C15_unterminated_nonvacuous :
  partial_ok ex_partial_disabled = true /\ partial_ok ex_partial_enabled = true
  /\ filter not_pp (prep_run (render_items ex_nested ++ render_partial ex_partial_disabled))
     = [(T_Whitespace, 1, None); (T_Id, 2, None); (T_IntVal, 2, None); (T_Id, 3, None); (T_Semi, 1, None);
        (T_Error, 2, Some (ErrLex EInvalidDotDot));
        (T_Error, 0, Some (ErrPrep PEUnterminated)); (T_Eof, 0, None)]
  /\ prep_run (render_items [IDefine (ex_hd ex_define 65)] ++ render_partial ex_partial_enabled)
     = [(T_PreProcessor, 13, None); (T_PreProcessor, 19, None); (T_Id, 1, None); (T_PreProcessor, 13, None);
        (T_Id, 1, None); (T_Error, 0, Some (ErrPrep PEUnterminated)); (T_Eof, 0, None)]
  /\ select_partial [[65]] ex_partial_enabled = [ex_id 98; ex_id 99].
Proof. vm_compute. repeat split; reflexivity. Qed.

(** a missing macro name after each of the three directives: before a non-identifier, at the end of
    the file (after trivia), and directly before a non-identifier *)
Example C15_missing_name_nonvacuous :
  (missing_name ex_ifdef [ex_ws] [mk T_IntVal [49; 50; 51]; ex_id 65] = true
   /\ prep_run (ex_ifdef :: [ex_ws] ++ [mk T_IntVal [49; 50; 51]; ex_id 65])
      = [(T_Error, 10, Some (ErrPrep PEIfdefName)); (T_Id, 1, None); (T_Eof, 0, None)])
  /\ (missing_name ex_ifndef [ex_ws; ex_cmt] [] = true
      /\ prep_run (render_items [ITok (ex_id 65)] ++ ex_ifndef :: [ex_ws; ex_cmt] ++ [])
         = [(T_Id, 1, None); (T_Error, 12, Some (ErrPrep PEIfndefName)); (T_Eof, 0, None)])
  /\ (missing_name ex_define [] [mk T_Semi [59]] = true
      /\ prep_run (ex_define :: [] ++ [mk T_Semi [59]])
         = [(T_Error, 8, Some (ErrPrep PEDefineName)); (T_Eof, 0, None)]).
Proof. vm_compute. repeat split; reflexivity. Qed.

(** * Text level (C14 and C15 combined): a text that is a sequence of specification-level lexical pieces
    (LexSpec: tokens, separators, directives; not merged by maximal munch) whose piece sequence is the
    rendering of a well-nested arrangement: the parser is handed exactly the selected tokens. *)
From Coq Require Import String.
From TG.Model Require Import LexSpec.
From TG.Proofs Require LexPrepText.
Open Scope list_scope.

Theorem C15_selects_lexed : forall (ps : list piece) (items : list item),
  forallb valid_piece_d ps = true -> not_merged ps = true ->
  map LexPrepText.rtok_of_piece ps = render_items items -> items_ok items = true ->
  filter not_pp (prep_text (render ps)) = map deliver (snd (select [] items)) ++ [eof_entry].
Proof. exact LexPrepText.selects_text_pieces. Qed.
Check C15_selects_lexed : forall (ps : list piece) (items : list item),
  forallb valid_piece_d ps = true -> not_merged ps = true ->
  map LexPrepText.rtok_of_piece ps = render_items items -> items_ok items = true ->
  filter not_pp (prep_text (render ps)) = map deliver (snd (select [] items)) ++ [eof_entry].
Print Assumptions C15_selects_lexed.

Theorem C15_unterminated_lexed : forall (ps : list piece) (items : list item) (p : partial),
  forallb valid_piece_d ps = true -> not_merged ps = true ->
  map LexPrepText.rtok_of_piece ps = render_items items ++ render_partial p ->
  items_ok items = true -> partial_ok p = true ->
  filter not_pp (prep_text (render ps))
  = map deliver (snd (select [] items) ++ select_partial (fst (select [] items)) p)
    ++ [(T_Error, 0, Some (ErrPrep PEUnterminated)); eof_entry].
Proof. exact LexPrepText.unterminated_text_pieces. Qed.
Check C15_unterminated_lexed : forall (ps : list piece) (items : list item) (p : partial),
  forallb valid_piece_d ps = true -> not_merged ps = true ->
  map LexPrepText.rtok_of_piece ps = render_items items ++ render_partial p ->
  items_ok items = true -> partial_ok p = true ->
  filter not_pp (prep_text (render ps))
  = map deliver (snd (select [] items) ++ select_partial (fst (select [] items)) p)
    ++ [(T_Error, 0, Some (ErrPrep PEUnterminated)); eof_entry].
Print Assumptions C15_unterminated_lexed.

Theorem C15_missing_name_lexed : forall (ps : list piece) (items : list item) dir gap rest,
  forallb valid_piece_d ps = true -> not_merged ps = true ->
  map LexPrepText.rtok_of_piece ps = render_items items ++ dir :: gap ++ rest ->
  items_ok items = true -> missing_name dir gap rest = true ->
  exists pre len post,
    prep_text (render ps) = pre ++ (T_Error, len, Some (ErrPrep (missing_name_err dir))) :: post
    /\ filter not_pp pre = map deliver (snd (select [] items)).
Proof. exact LexPrepText.missing_name_text_pieces. Qed.
Check C15_missing_name_lexed : forall (ps : list piece) (items : list item) dir gap rest,
  forallb valid_piece_d ps = true -> not_merged ps = true ->
  map LexPrepText.rtok_of_piece ps = render_items items ++ dir :: gap ++ rest ->
  items_ok items = true -> missing_name dir gap rest = true ->
  exists pre len post,
    prep_text (render ps) = pre ++ (T_Error, len, Some (ErrPrep (missing_name_err dir))) :: post
    /\ filter not_pp pre = map deliver (snd (select [] items)).
Print Assumptions C15_missing_name_lexed.

(** non-vacuity:  #ifndef A / class X; / #else / zz# / #endif / def Y;   (as pieces) *)
Definition lx (k : TokenKind) (s : String.string) : piece := mkpiece k (cps s).
Definition rt (k : TokenKind) (s : String.string) : rtok := LexPrepText.rtok_of_piece (lx k s).
Definition nl : piece := mkpiece T_Whitespace [10].
Definition ex_lexed_pieces : list piece :=
  [ lx T_Ifndef "#ifndef"; lx T_Whitespace " "; lx T_Id "A"; nl; lx T_Class "class"; lx T_Whitespace " "; lx T_Id "X";
    lx T_Semi ";"; nl; lx T_Else "#else"; nl; lx T_Id "zz"; lx T_Paste "#"; nl; lx T_Endif "#endif"; nl;
    lx T_Def "def"; lx T_Whitespace " "; lx T_Id "Y"; lx T_Semi ";" ]%string.
Definition ex_lexed_items : list item :=
  [ ICond IfNdef (mkhead (rt T_Ifndef "#ifndef") [rt T_Whitespace " "] (rt T_Id "A"))
      [ ITok (LexPrepText.rtok_of_piece nl); ITok (rt T_Class "class"); ITok (rt T_Whitespace " "); ITok (rt T_Id "X");
        ITok (rt T_Semi ";"); ITok (LexPrepText.rtok_of_piece nl) ]
      (Some (rt T_Else "#else", [ ITok (LexPrepText.rtok_of_piece nl); ITok (rt T_Id "zz"); ITok (rt T_Paste "#");
                                   ITok (LexPrepText.rtok_of_piece nl) ]))
      (rt T_Endif "#endif");
    ITok (LexPrepText.rtok_of_piece nl); ITok (rt T_Def "def"); ITok (rt T_Whitespace " "); ITok (rt T_Id "Y");
    ITok (rt T_Semi ";") ]%string.
Example C15_selects_lexed_nonvacuous :
  forallb valid_piece_d ex_lexed_pieces = true /\ not_merged ex_lexed_pieces = true
  /\ map LexPrepText.rtok_of_piece ex_lexed_pieces = render_items ex_lexed_items
  /\ items_ok ex_lexed_items = true
  /\ filter not_trivia (prep_text (render ex_lexed_pieces))
     = [(T_Class, 5, None); (T_Id, 1, None); (T_Semi, 1, None); (T_Def, 3, None); (T_Id, 1, None); (T_Semi, 1, None);
        (T_Eof, 0, None)].
Proof. vm_compute. repeat split; reflexivity. Qed.

(** non-vacuity of the text-level unterminated / missing-name theorems:
    "#ifdef A" NL "x" NL "#else" NL "y"  (cut off in the enabled else-branch)   and   "def" " " "#define" ";" *)
Definition ex_lexed_unterminated : list piece :=
  [ lx T_Ifdef "#ifdef"; lx T_Whitespace " "; lx T_Id "A"; nl; lx T_Id "x"; nl; lx T_Else "#else"; nl; lx T_Id "y" ]%string.
Definition ex_lexed_partial : partial :=
  PElse IfDef (mkhead (rt T_Ifdef "#ifdef") [rt T_Whitespace " "] (rt T_Id "A"))
        [ ITok (LexPrepText.rtok_of_piece nl); ITok (rt T_Id "x"); ITok (LexPrepText.rtok_of_piece nl) ]
        (rt T_Else "#else") [ ITok (LexPrepText.rtok_of_piece nl); ITok (rt T_Id "y") ] None.
Example C15_unterminated_lexed_nonvacuous :
  forallb valid_piece_d ex_lexed_unterminated = true /\ not_merged ex_lexed_unterminated = true
  /\ map LexPrepText.rtok_of_piece ex_lexed_unterminated = render_items [] ++ render_partial ex_lexed_partial
  /\ partial_ok ex_lexed_partial = true
  /\ filter not_trivia (prep_text (render ex_lexed_unterminated))
     = [(T_Id, 1, None); (T_Error, 0, Some (ErrPrep PEUnterminated)); (T_Eof, 0, None)].
Proof. vm_compute. repeat split; reflexivity. Qed.

Definition ex_lexed_missing : list piece :=
  [ lx T_Def "def"; lx T_Whitespace " "; lx T_Define "#define"; lx T_Semi ";" ]%string.
Example C15_missing_name_lexed_nonvacuous :
  forallb valid_piece_d ex_lexed_missing = true /\ not_merged ex_lexed_missing = true
  /\ map LexPrepText.rtok_of_piece ex_lexed_missing
     = render_items [ITok (rt T_Def "def"); ITok (rt T_Whitespace " ")] ++ rt T_Define "#define" :: [] ++ [rt T_Semi ";"]
  /\ missing_name (rt T_Define "#define") [] [rt T_Semi ";"] = true
  /\ prep_text (render ex_lexed_missing)
     = [(T_Def, 3, None); (T_Whitespace, 1, None); (T_Error, 8, Some (ErrPrep PEDefineName)); (T_Eof, 0, None)].
Proof. vm_compute. repeat split; reflexivity. Qed.

(** * Parser level: disabled text produces neither nodes nor diagnostics, for EVERY program of the
      grammar DSL (proofs in TG.Proofs.ParsePrep).
    Vocabulary (TG.Model.ParserPrims / GInterp / Tree: the model of parser.rs, of the grammar DSL
    interpreter and of rowan trees; parse_with fuel p entry txt = ParseOk t errs st: the program [p]
    run from function [entry] on [txt] ends without panic / out-of-fuel with tree [t], errors [errs]
    (lo, hi, message) and final parser state [st]; cur st = the look-ahead kind):
      xentry = kind * covered raw tokens * taken error (one delivery of the preprocessor);
      hist st raw h st' raw' : delivering and saving the entries [h] one after the other
        (prep_next, then take_error iff the kind is Error) leads from (st, raw) to (st', raw');
      xleaf x = (sk_of_tk (kind x), source text of the covered raw tokens); strip = a leaf without
        its offsets; not_eofx / not_eof_leaf = "kind is not Eof"; vis_leaf = neither trivia nor Eof;
      tok_leaf tok = (sk_of_tk (rk tok), rtext tok);
      hlen a = total byte length of the entries [a]; curx st pre = the look-ahead of [st] as an entry;
      err_at strict hall (lo, hi, _) : hall = a ++ x :: b, lo = hlen a, hi = lo + length of x, and x is
        not trivia (or, when strict = false, x is the very first delivered entry);
      err_on_selected items hall (lo, hi, _) first_ok : the same with "x is the Eof entry or
        x = deliverx tok for a SELECTED non-trivia tok of the reference evaluation" (or first_ok and x first);
      lead n p e = Done : static criterion "e certainly reaches skip/eat before it can report an error". *)
From TG.Gen Require Import GenGrammar.
From TG.Model Require Import Tree ParserPrims GInterp.
From TG.Proofs Require Import ParserTile ParsePrep.
Close Scope string_scope.
Close Scope nat_scope.
Open Scope N_scope.

(** (A) the leaves of the tree are, in order, exactly the entries the preprocessor delivered (kinds via
    sk_of_tk, texts = covered source text); when the parse ends at Eof these are all the non-Eof
    entries of the preprocessor run over the text *)
Theorem C15_parse_leaves_any_program : forall p entry fuel txt t errs st,
  parse_with fuel p entry txt = ParseOk t errs st ->
  exists h st0 r0, hist pinit (raw_lex txt) h st0 r0
    /\ map strip (leaves t) = map xleaf h
    /\ (cur st = T_Eof ->
        filter not_eofx h = filter not_eofx (prep_runx (raw_lex txt))
        /\ filter not_eof_leaf (map strip (leaves t)) = map xleaf (filter not_eofx (prep_runx (raw_lex txt)))).
Proof. exact ParsePrep.parse_leaves_any_program. Qed.
Check C15_parse_leaves_any_program : forall p entry fuel txt t errs st,
  parse_with fuel p entry txt = ParseOk t errs st ->
  exists h st0 r0, hist pinit (raw_lex txt) h st0 r0
    /\ map strip (leaves t) = map xleaf h
    /\ (cur st = T_Eof ->
        filter not_eofx h = filter not_eofx (prep_runx (raw_lex txt))
        /\ filter not_eof_leaf (map strip (leaves t)) = map xleaf (filter not_eofx (prep_runx (raw_lex txt)))).
Print Assumptions C15_parse_leaves_any_program.

(** (B) for a well-nested arrangement parsed to the end (any program): the non-trivia leaves are exactly
    the selected non-trivia tokens, and every token of a disabled region lies inside a trivia leaf of
    kind PreProcessor (so no node contains it except as trivia) *)
Theorem C15_disabled_no_nodes : forall p entry fuel txt t errs st items,
  parse_with fuel p entry txt = ParseOk t errs st ->
  raw_lex txt = render_items items -> items_ok items = true -> cur st = T_Eof ->
  filter vis_leaf (map strip (leaves t))
  = map tok_leaf (filter (fun tok => negb (is_trivia (rk tok))) (snd (select [] items)))
  /\ (forall tok, In tok (disabled [] items) ->
        exists c, In (S_PreProcessor, raw_text c) (map strip (leaves t)) /\ In tok c).
Proof. exact ParsePrep.parse_disabled_no_nodes. Qed.
Check C15_disabled_no_nodes : forall p entry fuel txt t errs st items,
  parse_with fuel p entry txt = ParseOk t errs st ->
  raw_lex txt = render_items items -> items_ok items = true -> cur st = T_Eof ->
  filter vis_leaf (map strip (leaves t))
  = map tok_leaf (filter (fun tok => negb (is_trivia (rk tok))) (snd (select [] items)))
  /\ (forall tok, In tok (disabled [] items) ->
        exists c, In (S_PreProcessor, raw_text c) (map strip (leaves t)) /\ In tok c).
Print Assumptions C15_disabled_no_nodes.

(** (C) any program: every recorded error is the range of ONE delivered entry (lo = bytes of everything
    delivered before it, hi = lo + its length), which is non-trivia or the first delivered entry *)
Theorem C15_errors_any_program : forall p entry fuel txt t errs st,
  parse_with fuel p entry txt = ParseOk t errs st ->
  exists h pre st0 r0, hist pinit (raw_lex txt) (h ++ [curx st pre]) st0 r0
    /\ map strip (leaves t) = map xleaf h
    /\ Forall (err_at false (h ++ [curx st pre])) errs.
Proof. exact ParsePrep.parse_errors_any_program. Qed.
Check C15_errors_any_program : forall p entry fuel txt t errs st,
  parse_with fuel p entry txt = ParseOk t errs st ->
  exists h pre st0 r0, hist pinit (raw_lex txt) (h ++ [curx st pre]) st0 r0
    /\ map strip (leaves t) = map xleaf h
    /\ Forall (err_at false (h ++ [curx st pre])) errs.
Print Assumptions C15_errors_any_program.

(** ... hence, for a well-nested arrangement parsed to the end, on the first delivered entry, on the
    Eof entry, or on a SELECTED non-trivia token: no diagnostic is located in disabled text *)
Theorem C15_disabled_no_errors : forall p entry fuel txt t errs st items,
  parse_with fuel p entry txt = ParseOk t errs st ->
  raw_lex txt = render_items items -> items_ok items = true -> cur st = T_Eof ->
  exists hall st0 r0, hist pinit (raw_lex txt) hall st0 r0
    /\ Forall (fun e => err_on_selected items hall e true) errs.
Proof. exact ParsePrep.parse_disabled_no_errors. Qed.
Check C15_disabled_no_errors : forall p entry fuel txt t errs st items,
  parse_with fuel p entry txt = ParseOk t errs st ->
  raw_lex txt = render_items items -> items_ok items = true -> cur st = T_Eof ->
  exists hall st0 r0, hist pinit (raw_lex txt) hall st0 r0
    /\ Forall (fun e => err_on_selected items hall e true) errs.
Print Assumptions C15_disabled_no_errors.

(** (D) programs that certainly skip before they can report an error (static criterion [lead]): every
    error is the range of a NON-TRIVIA delivered entry; the translated grammar is such a program *)
Theorem C15_errors_skip_first : forall n p entry fuel txt t errs st,
  lead n p (ECall entry None) = Done ->
  parse_with fuel p entry txt = ParseOk t errs st ->
  exists h pre st0 r0, hist pinit (raw_lex txt) (h ++ [curx st pre]) st0 r0
    /\ map strip (leaves t) = map xleaf h
    /\ Forall (err_at true (h ++ [curx st pre])) errs.
Proof. exact ParsePrep.parse_errors_strict. Qed.
Check C15_errors_skip_first : forall n p entry fuel txt t errs st,
  lead n p (ECall entry None) = Done ->
  parse_with fuel p entry txt = ParseOk t errs st ->
  exists h pre st0 r0, hist pinit (raw_lex txt) (h ++ [curx st pre]) st0 r0
    /\ map strip (leaves t) = map xleaf h
    /\ Forall (err_at true (h ++ [curx st pre])) errs.
Print Assumptions C15_errors_skip_first.

Example C15_grammar_skips_first : lead 8 grammar_prog (ECall grammar_entry None) = Done.
Proof. vm_compute. reflexivity. Qed.

Theorem C15_errors_grammar : forall fuel txt t errs st,
  parse_with fuel grammar_prog grammar_entry txt = ParseOk t errs st ->
  exists h pre st0 r0, hist pinit (raw_lex txt) (h ++ [curx st pre]) st0 r0
    /\ map strip (leaves t) = map xleaf h
    /\ Forall (err_at true (h ++ [curx st pre])) errs.
Proof. exact ParsePrep.grammar_errors_non_trivia. Qed.
Check C15_errors_grammar : forall fuel txt t errs st,
  parse_with fuel grammar_prog grammar_entry txt = ParseOk t errs st ->
  exists h pre st0 r0, hist pinit (raw_lex txt) (h ++ [curx st pre]) st0 r0
    /\ map strip (leaves t) = map xleaf h
    /\ Forall (err_at true (h ++ [curx st pre])) errs.
Print Assumptions C15_errors_grammar.

(** the translated grammar on a well-nested arrangement parsed to the end: every diagnostic is located
    on the Eof entry or on a SELECTED non-trivia token *)
Theorem C15_disabled_no_errors_grammar : forall fuel txt t errs st items,
  parse_with fuel grammar_prog grammar_entry txt = ParseOk t errs st ->
  raw_lex txt = render_items items -> items_ok items = true -> cur st = T_Eof ->
  exists hall st0 r0, hist pinit (raw_lex txt) hall st0 r0
    /\ Forall (fun e => err_on_selected items hall e false) errs.
Proof. exact ParsePrep.grammar_disabled_no_errors. Qed.
Check C15_disabled_no_errors_grammar : forall fuel txt t errs st items,
  parse_with fuel grammar_prog grammar_entry txt = ParseOk t errs st ->
  raw_lex txt = render_items items -> items_ok items = true -> cur st = T_Eof ->
  exists hall st0 r0, hist pinit (raw_lex txt) hall st0 r0
    /\ Forall (fun e => err_on_selected items hall e false) errs.
Print Assumptions C15_disabled_no_errors_grammar.

(** Non-vacuity (definitions in ParsePrep, section 8).  [ex_src] =
      #ifdef A / .. <unterminated string> / #define B / #endif / class C; / #ifdef B / } / #endif
    A is undefined: the first region (two raw Error tokens and a #define) is disabled, hence B is
    undefined and the second region (a stray brace) is disabled too.  The translated grammar parses it
    to Eof without a diagnostic; the non-trivia leaves are class C ; and the two disabled regions are
    one PreProcessor trivia leaf each. *)
Example C15_parse_nonvacuous :
  raw_lex ex_src = render_items ex_src_items /\ items_ok ex_src_items = true
  /\ existsb (fun t => tk_eqb (rk t) T_Error) (disabled [] ex_src_items) = true
  /\ existsb (fun t => tk_eqb (rk t) T_Define) (disabled [] ex_src_items) = true
  /\ existsb (fun t => tk_eqb (rk t) T_RBrace) (disabled [] ex_src_items) = true
  /\ parse_view (parse_with 2000 grammar_prog grammar_entry ex_src)
     = Some ([(S_PreProcessor,
               [35; 105; 102; 100; 101; 102; 32; 65; 10; 46; 46; 32; 34; 120; 10; 35; 100; 101; 102; 105; 110; 101;
                32; 66; 10; 35; 101; 110; 100; 105; 102]);
              (S_Whitespace, [10]); (S_ClassKw, [99; 108; 97; 115; 115]); (S_Whitespace, [32]); (S_Id, [67]);
              (S_Semi, [59]); (S_Whitespace, [10]);
              (S_PreProcessor, [35; 105; 102; 100; 101; 102; 32; 66; 10; 125; 10; 35; 101; 110; 100; 105; 102]);
              (S_Whitespace, [10])],
             [], T_Eof)
  /\ map tok_leaf (filter (fun tok => negb (is_trivia (rk tok))) (snd (select [] ex_src_items)))
     = [(S_ClassKw, [99; 108; 97; 115; 115]); (S_Id, [67]); (S_Semi, [59])].
Proof. vm_compute. repeat split; reflexivity. Qed.

(** [ex_src2] = #ifdef A / .. / #endif / } : the disabled ".." yields no diagnostic; the enabled stray
    brace (a selected token, bytes 19..20) yields the only one *)
Example C15_parse_error_nonvacuous :
  raw_lex ex_src2 = render_items ex_src2_items /\ items_ok ex_src2_items = true
  /\ parse_view (parse_with 2000 grammar_prog grammar_entry ex_src2)
     = Some ([(S_PreProcessor, [35; 105; 102; 100; 101; 102; 32; 65; 10; 46; 46; 10; 35; 101; 110; 100; 105; 102]);
              (S_Whitespace, [10]); (S_RBrace, [125]); (S_Whitespace, [10])],
             [(19, 20, MLit "expected class, def, defm, defset, dump, multiclass, let or foreach")],
             T_Eof)
  /\ map tok_leaf (snd (select [] ex_src2_items)) = [(S_Whitespace, [10]); (S_RBrace, [125]); (S_Whitespace, [10])].
Proof. vm_compute. repeat split; reflexivity. Qed.

(** * The preprocessor model IS the source: coq/gen/GenPrep.v is regenerated from crates/syntax/src/preprocessor.rs on
    every run (tools/translate/t_prep.py: every function rendered statement by statement in the shallow state-monad
    embedding of model/PrepMonad.v; the calls on the inner `T: TokenStream` run the GENERATED lexer coq/gen/GenLexer.v).
    Driven through the TokenStream protocol as prepdump.rs / ParserBase drive it (cursor, eat, cursor, take_error iff
    Error; then macros()), the generated STREAMING preprocessor over a text yields, for EVERY text, exactly the entries
    of the hand model Prep.prep_text over the raw token list (kinds, byte lengths, error messages) and its final macro
    set.  Every theorem above therefore also holds of the regenerated rendering, and any semantic edit of
    preprocessor.rs changes GenPrep.v and breaks this obligation. *)
From TG.Gen Require GenLexer GenPrep.
From TG.Model Require ScanMonad PrepMonad.
From TG.Proofs Require GenLexerEq GenPrepEq.

Theorem C15_model_is_source : forall txt : list N,
  GenPrepEq.gen_prep_text txt = map GenPrepEq.prep_view (prep_text txt)
  /\ GenPrepEq.gen_prep_macros txt = prep_macros txt.
Proof. exact (fun txt => conj (GenPrepEq.gen_prep_text_eq txt) (GenPrepEq.gen_prep_macros_eq txt)). Qed.
Check C15_model_is_source : forall txt : list N,
  GenPrepEq.gen_prep_text txt = map GenPrepEq.prep_view (prep_text txt)
  /\ GenPrepEq.gen_prep_macros txt = prep_macros txt.
Print Assumptions C15_model_is_source.

(** per call of `next_token`: from a generated state [g] related to a hand state [st] with the text [s] after the
    cursor of the inner scanner ([GenPrepEq.sim]: macro set, preprocessor error slot, lexer error slot and
    open_conditionals agree), if the hand model's [prep_next] on the raw tokens of [s] delivers (k, len, st', raw'),
    then the generated function returns k, consumes exactly [len] bytes [w] of the text, and ends in a state related
    to st' whose remaining text [s'] has exactly the remaining raw tokens *)
Theorem C15_prep_next_is_source : forall (g : PrepMonad.pp) (st : pstate) (s : list N) k len st' raw',
  GenPrepEq.sim g st s -> prep_next st (raw_lex s) = (k, len, st', raw') ->
  exists g' w s', GenPrep.gp_next_token g = (PrepMonad.FNorm k, g') /\ GenPrepEq.sim g' st' s' /\ raw' = raw_lex s'
    /\ s = w ++ s' /\ len = bytes w
    /\ ScanMonad.sc_cursor (ScanMonad.l_s (PrepMonad.p_ts g')) = ScanMonad.sc_cursor (ScanMonad.l_s (PrepMonad.p_ts g)) + len.
Proof. exact GenPrepEq.gen_prep_next_eq. Qed.
Check C15_prep_next_is_source : forall (g : PrepMonad.pp) (st : pstate) (s : list N) k len st' raw',
  GenPrepEq.sim g st s -> prep_next st (raw_lex s) = (k, len, st', raw') ->
  exists g' w s', GenPrep.gp_next_token g = (PrepMonad.FNorm k, g') /\ GenPrepEq.sim g' st' s' /\ raw' = raw_lex s'
    /\ s = w ++ s' /\ len = bytes w
    /\ ScanMonad.sc_cursor (ScanMonad.l_s (PrepMonad.p_ts g')) = ScanMonad.sc_cursor (ScanMonad.l_s (PrepMonad.p_ts g)) + len.
Print Assumptions C15_prep_next_is_source.

(** non-vacuity: a related pair of states and a step of the hand model from it ("#ifdef A": one PreProcessor token
    of 8 bytes, one open conditional afterwards) *)
Example C15_prep_next_is_source_nonvacuous :
  GenPrepEq.sim (GenPrep.gp_new (GenLexer.g_new [35; 105; 102; 100; 101; 102; 32; 65])) pinit [35; 105; 102; 100; 101; 102; 32; 65]
  /\ exists k len st' raw', prep_next pinit (raw_lex [35; 105; 102; 100; 101; 102; 32; 65]) = (k, len, st', raw')
       /\ k = T_PreProcessor /\ len = 8 /\ openc st' = 1.
Proof. exact GenPrepEq.sim_nonvacuous. Qed.
