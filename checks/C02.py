"""C02 Parser totality: lexing, preprocessing and parsing terminate without panic on every text of bracket nesting
<= 256, with parser work linear in the number of tokens; every error has a non-empty message and a range inside
the text on character boundaries.

1. harness `parsedump` (per-case watchdog, catch_unwind, 8 MiB stack) is built against the current tree;
2. translators regenerate coq/gen: the grammar as a DSL program (t_grammar) and the UNTRUSTED certificate
   (t_grammarcert -> tools/cert_grammar.py); the Coq cone props/C02.vo is re-checked: the certificate checkers are
   evaluated by vm_compute on the regenerated program (A-prog / A-look: chk_all; A-bld: bchk_all; messages:
   prog_msgs_ok) and their soundness theorems give termination / panic-freedom / well-formed errors for every text;
3. correspondence: extracted model vs real parser on the same inputs: tree AND error list (range, message text);
4. oracle = the property on the real code: parse returns (no panic, no abort, no time-out), every error is
   well-formed, and the work counters derived from the tree (nodes = start_node calls, leaves + 1 = lex calls) are
   within K * (raw tokens + 1).
Inputs: the C01 families + unterminated constructs at every token position + every recursive construct nested up to
256 deep (closed and unclosed).
"""
import json
import os
import time

import vlib
import synlib
import treeio
import parsergen
from checks import C01

THEOREMS = ["C02_prims_are_source", "C02_total_source", "C02_source_never_panics", "C02_parse_is_source", "C02_total_lib_parse", "C02_lib_parse_never_panics", "C02_parse_spec", "C02_total", "C02_total_checked", "C02_linear", "C02_linear_checked", "C02_work_is_tree_size", "C02_terminates", "C02_terminates_checked", "C02_errors_wellformed",
            "C02_token_stream_total", "C02_reachable_states_tile"]
TRUSTED = [
    "tie of lexer.rs / preprocessor.rs / parser.rs: TRANSLATION + PROOF -- tools/translate/{t_lexer,t_prep,t_parser}.py render every function of the three files (shallow state-monad embedding, coq/model/{ScanMonad,PrepMonad,ParserMonad}.v = contracts of unscanny, Rust std, rowan GreenNodeBuilder) into gen/Gen{Lexer,Prep,Parser}.v on every run; proofs/Gen{Lexer,Prep,Parser}Eq.v prove the rendering equal to the hand models for all states/texts (C0x_prims_are_source); trusted for these files are therefore the translators and the three monad files, no longer the hand models Lexer.v / Prep.v / ParserPrims.v (still cross-checked by the differential run); crates/syntax/src/lib.rs (`parse`, struct Parse and its accessors, Language::kind_from_raw/kind_to_raw) is rendered by t_libglue.py into gen/GenLibGlue.v over model/LibGlueApi.v and proved to be gparse_with (GenLibGlueEq.v, *_parse_is_source / *_lib_parse*)",
    "Coq 8.16.1 kernel; vm_compute for the reflective obligations on the regenerated grammar (chk_all, bchk_all, prog_msgs_ok); no axioms (Print Assumptions: closed under the global context)",
    "hand-written models coq/model/{Chars,Lexer,Prep,ParserPrims,Tree}.v of lexer.rs / preprocessor.rs / parser.rs and of rowan's GreenNodeBuilder incl. its assertions (start_node_at checkpoint bounds, finish_node on an empty stack, finish with other than one child), tied to the code by the correspondence run of this check (tree and error list)",
    "translator tools/translate/t_grammar.py (+ t_tokens, t_lextables, t_unicode); the certificate generator tools/cert_grammar.py is NOT trusted (its output is re-checked inside Coq)",
    "the interpreter coq/model/GInterp.v as the meaning of the Rust subset the grammar is written in (Appendix C of DESIGN.md): panics of the Rust code are the RPanic outcomes of the model",
    "native stack consumption is not modelled: nesting <= 256 is exercised on the real parser (8 MiB stack thread), labelled test",
    "the linear work bound C02_linear is proved for the model's counters nlex + nstart with the constant grammar_K computed from the regenerated grammar; on the real parser the same counters are read off the tree (C02_work_is_tree_size: nlex = leaves + 1, nstart <= nodes) and checked against the measured bound WORK_K",
    "Coq extraction (ExtrOcamlBasic only) and the OCaml driver coq/extract/syntax_driver.ml; Rust harness harness/src/bin/parsedump.rs; this Python driver and its oracle (lib/synlib.py: errors_oracle)",
]
TRANSLATORS = C01.TRANSLATORS
WORK_K = 48     # fallback bound when the proved constant cannot be read; the measured maximum is reported in the evidence


def proved_K():
    """the constant of C02_linear for the regenerated grammar (vm_compute of grammar_K), or None"""
    import re
    d = os.path.join(vlib.CACHE, "pa")
    os.makedirs(d, exist_ok=True)
    path = os.path.join(d, "C02_K.v")
    open(path, "w").write("Require Import Coq.NArith.NArith TG.Proofs.ParserTop.\nEval vm_compute in (N.of_nat grammar_K).\n")
    rc, out = vlib.sh(["coqc", "-noglob", "-Q", "gen", "TG.Gen", "-Q", "model", "TG.Model", "-Q", "proofs", "TG.Proofs", path],
                      cwd=vlib.COQ, timeout=300)
    for ext in (".vo", ".vok", ".vos", ".glob"):
        try:
            os.remove(os.path.join(d, "C02_K" + ext))
        except OSError:
            pass
    m = re.search(r"=\s*(\d+)%N", out)
    return int(m.group(1)) if (rc == 0 and m) else None


def families(ctx):
    rng, q = ctx.rng, ctx.quick
    cases = list(C01.families(ctx))
    if not q:
        # the exhaustive families of C01's thorough tier are sampled here (C01 runs them exhaustively and treats a
        # panic / time-out as "no tree"): keeps the thorough tier within its time budget
        big = ("token-classes<=3", "alphabet<=3", "alphabet=3..6(sample)", "token-classes=4..6(sample)")
        cases = [(f, t) for (f, t) in cases if f not in big or rng.random() < 0.34]
    # unterminated constructs at every token position of generated programs
    for _ in range(6 if q else 30):
        toks = parsergen.gen_program(rng, rng.choice([6, 14, 30]))
        for t in parsergen.unterminated_at_every_position(toks, max_pos=(25 if q else None)):
            cases.append(("unterminated-at-every-position", t))
    for u in parsergen.UNTERMINATED:
        for v in parsergen.UNTERMINATED:
            cases.append(("unterminated-pairs", u + " " + v))
            cases.append(("unterminated-pairs", u + "\n" + v + "\n"))
    # deep nesting of every recursive construct, closed and unclosed
    depths = [1, 2, 3, 17, 64, 128, 255, 256] if q else list(range(1, 13)) + [17, 32, 64, 100, 128, 200, 255, 256]
    for d in depths:
        for t in parsergen.nesting(d):
            cases.append(("nesting<=256", t))
    seen, out = set(), []
    for fam, t in cases:
        if t not in seen:
            seen.add(t)
            out.append((fam, t))
    return out


def tree_counts(r, special=()):
    """(nodes, leaves[, nodes of a kind in `special`]) of a parsedump tree"""
    nodes = leaves = spec = 0
    stack = [r["tree"]]
    while stack:
        n = stack.pop()
        if n[0] == "T":
            leaves += 1
        else:
            nodes += 1
            if n[1] in special:
                spec += 1
            stack.extend(n[4])
    return (nodes, leaves, spec) if special else (nodes, leaves)


def direct_builder_kinds():
    """node kinds that are NOT opened through ParserBase::start_node (hence not counted in the model's nstart):
    Error (error_and_eat / error_and_recover call the builder directly) and the kinds used with start_node_at"""
    import re
    txt = open(os.path.join(vlib.COQ, "gen", "GenGrammar.v")).read()
    ks = set(re.findall(r"PStartNodeAt \d+ S_(\w+)", txt))
    ks.add("Error")
    return ks


BOUND = {"K": WORK_K}


def total_oracle(text, r, ntok):
    why = synlib.errors_oracle(text, r)
    if why:
        return why
    nodes, leaves = tree_counts(r)
    if nodes + leaves > BOUND["K"] * (ntok + 1):
        return "parser work not linear: %d nodes + %d leaves for %d raw tokens (bound %d * (tokens + 1))" % (nodes, leaves, ntok, BOUND["K"])
    return None


SCALING_UNITS = [") ", "x ", "class A { int x = ; } ", "def d : B<1> { let a = [1, 2]; }\n", "#ifdef X\nq\n#else\n#endif\n",
                 "/* c */ // d\n", "\"s\" ", "@ ", "defvar v = !add(1, 2); ", "}\n"]


def scaling_check(ctx, bindir):
    """parser work bounded by a constant multiple of the number of tokens, on the part of the work that the tree
    does not show (e.g. a scan of all earlier errors per error): wall time of syntax::parse per repeated unit, for
    an input of n1 units and one of n2 = 16 * n1 (or more) units; minimum over repeated runs; a growth of the
    per-unit time by more than 6x is confirmed with 5 more runs before it counts."""
    exe = os.path.join(bindir, "parsedump")
    n1, n2 = (4000, 64000) if ctx.quick else (4000, 256000)

    def us(text, reps):
        best = None
        for _ in range(reps):
            try:
                out, _err = synlib.run_json(exe, ["--stats", "--timeout-ms", "60000"], [text], timeout=200)
            except Exception:
                out = None
            if not out or "parse_us" not in out[0]:
                return None
            best = out[0]["parse_us"] if best is None else min(best, out[0]["parse_us"])
        return max(best, 1)
    rows, bad = [], []
    for unit in SCALING_UNITS:
        t1, t2 = us(unit * n1, 3), us(unit * n2, 2)
        if t1 is None or t2 is None:
            continue                      # a crash / time-out on these inputs is reported by the main oracle
        ratio = (t2 / n2) / (t1 / n1)
        if ratio > 6 and t2 > 50000:
            t1b, t2b = us(unit * n1, 5), us(unit * n2, 5)
            if t1b and t2b:
                ratio = min(ratio, (t2b / n2) / (min(t1, t1b) / n1))
        rows.append({"unit": unit, "n1": n1, "us1": t1, "n2": n2, "us2": t2, "per_unit_growth": round(ratio, 2)})
        if ratio > 6 and t2 > 50000:
            bad.append((unit, n2, ratio, t1, t2))
    return rows, bad


def raw_token_counts(exe, texts):
    """number of raw lexer tokens of each text, from the extracted lexer model"""
    lines = synlib.model_lines(exe, "lex", texts, timeout=1500)
    return [max(0, len(l.split()) - 1) if l != "MODEL-CRASH" else None for l in lines]


def run(ctx):
    bindir = vlib.build_harness(False, bins=["parsedump"])
    fails = vlib.proof_step(ctx, "TG.Props.C02", THEOREMS, ["props/C02.vo"], TRUSTED, translators=TRANSLATORS)
    synlib.stale_generated(ctx, fails, THEOREMS)
    exe = vlib.build_model("syntax")
    sk, _tk, _d = treeio.kind_tables(vlib.REPO)
    kp = proved_K() if not fails else None
    BOUND["K"] = kp or WORK_K
    cases = families(ctx)
    texts = [t for _f, t in cases]
    t0 = time.time()
    real = C01.run_real(bindir, texts, watchdog_ms=(4000 if ctx.quick else 10000), budget={"left": 25})
    # a watchdog hit is confirmed with a long limit before it counts (a loaded machine must not raise an alarm)
    # (at most 3 confirmations: every further hit is dropped as "skipped", the confirmed ones are the evidence)
    confirm_ms, confirmed = 40000, 0
    for i, r in enumerate(real):
        if "timeout" in r:
            if confirmed < 3:
                real[i] = C01.run_real(bindir, [texts[i]], timeout=120, watchdog_ms=confirm_ms)[0]
                confirmed += 1 if "timeout" in real[i] else 0
            else:
                real[i] = {"skipped": True}
    t_real = time.time() - t0
    t0 = time.time()
    model = synlib.model_lines(exe, "parse", texts, timeout=1500)
    ntoks = raw_token_counts(exe, texts)
    t_model = time.time() - t0

    oracle_fail, corr_fail, model_bad, counter_bad = [], [], [], []
    special = direct_builder_kinds()
    max_ratio, max_ratio_model, nerr, sigs = 0.0, 0.0, 0, set()
    for (fam, t), r, m, nt in zip(cases, real, model, ntoks):
        if "skipped" in r:
            continue
        nt = nt if nt is not None else len(t)
        why = total_oracle(t, r, nt)
        if why:
            oracle_fail.append((fam, t, why))
            continue
        nodes, leaves = tree_counts(r)
        max_ratio = max(max_ratio, (nodes + leaves) / (nt + 1.0))
        nerr += len(r["errors"])
        if r["errors"]:
            sigs.add(hash(tuple(e[2] for e in r["errors"])))
        if m in ("PANIC", "OOF", "MODEL-CRASH"):
            model_bad.append((fam, t, m))
            continue
        rl = synlib.real_parse_line(r, sk)
        ml = synlib.model_parse_core(m).strip()
        if rl != ml:
            corr_fail.append((fam, t, rl[-300:], ml[-300:]))
        try:
            nlex, nstart = [int(x) for x in m.split("|")[2].split()]
            max_ratio_model = max(max_ratio_model, (nlex + nstart) / (nt + 1.0))
            # the real parser's work counters, read off its tree (rowan: one leaf per token(), one node per
            # start_node / start_node_at): lex calls = leaves + 1, start_node calls = nodes - directly built nodes
            n3, l3, sp3 = tree_counts(r, special)
            if nlex != l3 + 1 or nstart != n3 - sp3:
                counter_bad.append((fam, t, "model nlex=%d nstart=%d, real tree: leaves+1=%d, nodes-direct=%d" % (nlex, nstart, l3 + 1, n3 - sp3)))
        except (IndexError, ValueError):
            pass

    t0 = time.time()
    scal_rows, scal_bad = scaling_check(ctx, bindir)
    t_scal = time.time() - t0
    for unit, n2, ratio, t1, t2 in scal_bad[:2]:
        oracle_fail.append(("scaling", unit * n2, "parser work is not bounded by a constant multiple of the number of tokens: "
                            "syntax::parse takes %.1fx more time per token on %d repetitions of %r than on %d (%d us vs %d us)"
                            % (ratio, n2, unit, n2 // 16 if ctx.quick else 4000, t2, t1)))

    def still_fails(cands):
        rs = C01.run_real(bindir, cands, timeout=120, watchdog_ms=5000, budget={"left": 3})
        return [("skipped" not in r) and synlib.errors_oracle(c, r) is not None for c, r in zip(cands, rs)]

    found, reported = False, set()
    for fam, t, why in oracle_fail[:40]:
        hang = "did not return" in why or "died" in why
        if fam == "scaling":
            found = True
            ctx.violation("C02 fails on the real parser: " + why,
                          {"property": "C02", "input": t, "family": fam, "observed": {"oracle": why, "scaling": scal_rows},
                           "expected": "time of syntax::parse per token independent of the input size (within 6x for 16x the size)",
                           "seed": ctx.seed})
            continue
        can_shrink = len(t) <= 5000 and "work not linear" not in why and len(reported) < 2
        small = C01.shrink(t, still_fails, budget=(5 if hang else 12)) if can_shrink else t
        if small in reported:
            continue
        reported.add(small)
        r = C01.run_real(bindir, [small], timeout=120, watchdog_ms=40000)[0]
        nt = raw_token_counts(exe, [small])[0] or len(small)
        why_small = total_oracle(small, r, nt) or why
        m = synlib.model_lines(exe, "parse", [small])[0]
        found = True
        ctx.violation("C02 fails on the real parser: " + why_small,
                      {"property": "C02", "input": small, "family": fam, "original_input_len": len(t),
                       "observed": {"oracle": why_small, "real": _obs(r), "model": m[-1500:]},
                       "expected": "parse returns without panic within the watchdog; errors have non-empty messages and ranges inside the text on char boundaries; work <= %d * (tokens + 1)" % BOUND["K"],
                       "seed": ctx.seed})
        if len(reported) >= 5:
            break
    if corr_fail or model_bad or counter_bad:
        ex = [{"family": f, "input": t[:400], "real": a, "model": b} for f, t, a, b in corr_fail[:5]]
        ex += [{"family": f, "input": t[:400], "model": m} for f, t, m in model_bad[:5]]
        ex += [{"family": f, "input": t[:400], "work_counters": m} for f, t, m in counter_bad[:5]]
        fails.append({"kind": "correspondence", "file": "model-vs-parser tree+errors+work-counter correspondence (%d disagreements, %d model panics/out-of-fuel, %d counter mismatches)"
                      % (len(corr_fail), len(model_bad), len(counter_bad)), "examples": ex})
    fam_count = {}
    for f, _t in cases:
        fam_count[f] = fam_count.get(f, 0) + 1
    ctx.cov.update({
        "evaluations": len(cases),
        "distinct_nontrivial": len(sigs),
        "distinct_nontrivial_meaning": "distinct non-empty error-message sequences reported by the real parser",
        "errors_checked": nerr,
        "rule": "oracle on syntax::parse: returns without panic/abort/time-out; every error well-formed; nodes+leaves <= K*(raw tokens+1); model tree+errors == real",
        "work_bound_K": BOUND["K"],
        "work_bound_K_source": "grammar_K of theorem C02_linear (vm_compute on the regenerated grammar)" if kp else "fallback constant (the proof cone did not build)",
        "max_work_ratio_real_tree": round(max_ratio, 2),
        "max_work_ratio_model_nlex_plus_nstart": round(max_ratio_model, 2),
        "input_distribution": fam_count,
        "samples": [t[:120] for _f, t in cases[:: max(1, len(cases) // 12)]][:12],
        "oracle_failures": len(oracle_fail), "correspondence_disagreements": len(corr_fail), "model_panics": len(model_bad),
        "work_counter_mismatches": len(counter_bad),
        "scaling": scal_rows, "scaling_wall_s": round(t_scal, 1),
        "work_counters_rule": "model nlex == real leaves + 1 and model nstart == real nodes - nodes of kinds %s, on every case" % sorted(special),
        "max_nesting_depth": 256,
        "real_wall_s": round(t_real, 1), "model_wall_s": round(t_model, 1),
        "traces_validated_against_impl": len(cases) - len(oracle_fail),
    })
    vlib.broken_ties_to_violations(ctx, fails, found)


def _obs(r):
    if "panic" in r or "crash" in r or "timeout" in r:
        return r
    nodes, leaves = tree_counts(r)
    return {"errors": r["errors"][:40], "nodes": nodes, "leaves": leaves}


def replay(ctx, path):
    obj = json.load(open(path))
    if "input" not in obj:
        print(json.dumps(obj, indent=1)[:3000])
        return 1
    bindir = vlib.build_harness(False, bins=["parsedump"])
    vlib.run_translators(TRANSLATORS)
    exe = vlib.build_model("syntax")
    t = obj["input"]
    r = C01.run_real(bindir, [t], timeout=120)[0]
    m = synlib.model_lines(exe, "parse", [t])[0]
    nt = raw_token_counts(exe, [t])[0] or len(t)
    why = total_oracle(t, r, nt)
    print("input   :", json.dumps(t, ensure_ascii=False)[:2000])
    print("oracle  :", why or "holds")
    print("real    :", json.dumps(_obs(r), ensure_ascii=False)[:2000])
    print("model   :", m[-2000:])
    return 1 if why else 0
