"""C06 Definition/reference coherence on arbitrary input.

Proof: TG.Props.C06 (Coq): for ALL identifier-token lists and ALL op sequences satisfying the side conditions
`toks_sorted` / `ops_wf` (TG.Model.SymbolWf), the final state of the symbol-map model (TG.Model.SymbolMap: faithful
state machine of symbol_map.rs + goto_definition.rs + references.rs) satisfies the four clauses of the property
at every position.
Tie (C): the real indexer is run on every generated workspace with hook H3 (op log of every mutating SymbolMap
call); the extracted model replays the REAL op log; `toks_sorted` / `ops_wf` are evaluated on the real token list
and the real log (the hypotheses of the theorem are checked, not assumed); the model's interval maps, symbols and
goto/references answers at EVERY offset of every workspace file are compared with the real ones.
Oracle: the four clauses evaluated directly on the real answers (lib/symlib.c06_oracle)."""
import json
import os

import symgen
import symlib as L
import vlib

THEOREMS = ["C06_coherent", "C06_total", "C06_nonvacuous", "C06_nonvacuous_answers", "C06_double_visit_incoherent",
            "C06_coherent_core_partial", "C06_core_nonvacuous", "C06_pipeline_core_partial", "C06_pipeline_nonvacuous",
            "C06_log_fresh_core", "C06_coherent_core", "C06_pipeline_core"]
# the pipeline statement goes through the parser / AST models regenerated from the current sources
TRANSLATORS = ["t_tokens", "t_lextables", "t_unicode", "t_grammar", "t_grammarcert", "t_foldkinds", "t_ast", "t_symbolmap"]
TRUSTED = [
    "Coq 8.16.1 kernel; vm_compute only in the closed Examples (non-vacuity, D2 witness)",
    "C06_coherent is about the op-level model: what the indexer (index.rs) guarantees about its calls is the "
    "checked hypothesis ops_wf (evaluated by the extracted model on the real op log of every generated workspace)",
    "C06_coherent_core_partial replaces ops_wf by a proof over group scope's indexer model (Indexer.v) for ALL Core workspaces (any number of "
    "files); its hypotheses are stmt_ok (identifiers of the Core AST are identifier tokens of their file carrying their text) and the decidable "
    "log_fresh (no source range visited twice), evaluated by ixbridge_run on every compared workspace; C06_pipeline_core_partial discharges "
    "stmt_ok and toks_sorted through builder bridge's model pipeline (Pipeline.analyze), leaving only log_fresh; C06_log_fresh_core PROVES "
    "log_fresh from 'identifier ranges pairwise distinct per file' (proofs/IndexerFresh.v), which bridge proves for the pipeline "
    "(pipeline_idents_nodup): C06_coherent_core has hypotheses on the AST only and C06_pipeline_core has NO hypothesis; that Indexer.v + "
    "IndexerOps.abs equals what index.rs does is the CHECKED state equality 'bridge_to_indexer_model'; harness coreast = AstToCore.core_of_tree "
    "and parser model = syntax crate are the checked ties of builder bridge / the parser group; translators t_tokens, t_lextables, t_unicode, "
    "t_grammar, t_grammarcert, t_ast (pipeline statement)",
    "hook H3 logs every mutating SymbolMap call with its arguments (crates/ide/src/symbol_map.rs, symbol_map/*.rs, index/context.rs::error, cfg tablegen_lsp_verif)",
    "modelled, not verified: iset::IntervalMap (insert replaces on equal interval, point query = entries with lo <= p < hi in (lo,hi) order), "
    "id_arena (alloc appends), HashMap/IndexMap as association lists",
    "identifier tokens = rowan tokens of kind Id of syntax::parse of the same text (harness symdump); 'text of a range' = text of that token",
    "extraction (ExtrOcamlBasic), symmap_driver.ml, harness symdump.rs, lib/symlib.py, lib/symgen.py",
]


def gen_inputs(ctx):
    g = symgen.Gen(ctx.rng)
    if ctx.quick:
        der = L.derived_workspaces(g, ctx.rng, 300, 5, 5, 1)
    else:
        der = L.derived_workspaces(g, ctx.rng, 2400, 8, 8, 2)
    wss = []
    kinds = []
    for kind, files, root in der:
        wss.append(L.mk_ws(files, root, None, hover=False, completion=False, hints="none"))
        kinds.append(kind)
    for files, root, expect in symgen.expect_cases(ctx.rng, 16 if ctx.quick else 80):
        w = L.mk_ws(files, root, None, hover=False, completion=False, hints="none")
        w["expect"] = expect
        wss.append(w)
        kinds.append("expectation")
    return wss, kinds


def corpus_inputs(ctx):
    if ctx.quick:
        return []
    os.environ["INCLUDE_DIR"] = "/c"
    out = []
    for files, root in L.corpus_workspaces(ctx.rng, 20, 21000):
        w = L.mk_ws(files, root, None, hover=False, completion=False, hints="none")
        out.append(w)
    return out


def still_bad(bindir, prop_pred):
    def pred(files_root):
        files, root = files_root
        w = L.mk_ws(files, root, None, hover=False, completion=False, hints="none")
        r = L.run_symdump(bindir, [w], timeout=30)[0]
        if L.c03_problem(r) is not None:
            return False
        return prop_pred(w, r)
    return pred


def run(ctx):
    bindir = vlib.build_harness(True, bins=["symdump"])
    fails = vlib.proof_step(ctx, "TG.Props.C06", THEOREMS, ["props/C06.vo"], TRUSTED, translators=TRANSLATORS)
    L.source_tie(ctx, fails)
    exe = vlib.build_model("symmap")
    wss, kinds = gen_inputs(ctx)
    res = L.evaluate(bindir, exe, wss)
    cres = []
    cws = corpus_inputs(ctx)
    if cws:
        cres = L.evaluate(bindir, exe, cws, timeout=600, with_text=False)
        os.environ.pop("INCLUDE_DIR", None)
    found = False
    n_pos = n_ans = n_refs = n_ops = skipped = 0
    nontrivial = set()
    kind_count = {}
    ties = []
    samples = []
    bad_inputs = []
    for e, kind in list(zip(res, kinds)) + [(e, "corpus") for e in cres]:
        kind_count[kind] = kind_count.get(kind, 0) + 1
        r = e["real"]
        if e["c03"] is not None:
            skipped += 1      # the analysis did not answer at all: C03's business, nothing to check here
            continue
        n_ops += len(r["oplog"] or [])
        answered = 0
        for p, runs in r["at"].items():
            n_pos += r["len"][p] + 1
            for run_ in runs:
                if run_["def"] is not None:
                    answered += 1
                    n_refs += len(run_["refs"] or [])
        n_ans += answered
        if answered >= 2:
            nontrivial.add(vlib.sha(json.dumps(e["ws"]["files"])))
        if e["c06"]:
            bad_inputs.append((e, kind))
            continue
        m = e["model"]
        if m is None or "model_crash" in m:
            ties.append((e, "model did not run: %s" % (m or {}).get("model_crash")))
            continue
        if e["diffs"]:
            ties.append((e, "correspondence: " + e["diffs"][0]))
        elif not m["toks_sorted"]:
            ties.append((e, "hypothesis toks_sorted fails on the real token list"))
        elif m["wf_bad"] is not None:
            ties.append((e, "hypothesis ops_wf fails on the real op log at op %d: %s" % (m["wf_bad"], r["oplog"][m["wf_bad"]])))
        elif m["incoherent"]:
            ties.append((e, "model state incoherent although ops_wf holds (contradicts the theorem: extraction/driver fault) at %s" % m["incoherent"][:3]))
        if len(samples) < 3 and answered >= 3 and len(json.dumps(e["ws"]["files"])) < 700:
            samples.append({"files": e["ws"]["files"], "root": e["ws"]["root"], "kind": kind, "positions_answering": answered})
    # report the three smallest violating inputs (shrunk)
    bad_inputs.sort(key=lambda t: len(json.dumps(t[0]["ws"]["files"])))
    for e, kind in bad_inputs[:3]:
        p, o, what = e["c06"][0]
        files = e["ws"]["files"]
        if kind not in ("corpus", "expectation"):      # an expectation is tied to byte offsets of the generated text: not shrunk
            pred = still_bad(bindir, lambda w, rr: bool(L.c06_oracle(w, rr)))
            files = L.shrink_files(files, e["ws"]["root"], lambda fs: pred((fs, e["ws"]["root"])), 15)
        ctx.violation("C06 violated on the real analysis: %s@%d %s" % (p, o, what),
                      {"property": "C06", "files": files, "root": e["ws"]["root"], "original_files": e["ws"]["files"],
                       "at": [p, o], "what": what, "all": [list(x) for x in e["c06"][:10]], "seed": ctx.seed, "kind": kind,
                       "expect": e["ws"].get("expect", []),
                       "violating_workspaces_in_this_run": len(bad_inputs)})
        found = True
    # bridge tie: the symbol-map state that the indexer MODEL of group scope stands for (Indexer.index_ws on the typed Core AST
    # of the REAL parse, then IndexerOps.abs) must equal the state obtained by replaying the REAL op log
    bridge = {"compared": 0, "agree": 0, "noncore": 0, "status": "ok", "single_file": 0, "log_fresh_true": 0, "log_fresh_false": 0,
              "log_fresh_false_but_ops_wf": 0}
    try:
        bdir = vlib.build_harness(True, bins=["symdump", "coreast"])
        ix = vlib.build_model("ixbridge")
        sub = [e for e in res if e["c03"] is None and e["model"] and e["model"].get("run") == "ok"][:(400 if ctx.quick else 3000)]
        brs = L.bridge_states(bdir, ix, [e["ws"] for e in sub])
        for e, b in zip(sub, brs):
            d = L.bridge_compare(e["real"], e["model"], b)
            if d is None:
                bridge["noncore"] += 1
                continue
            bridge["compared"] += 1
            if d:
                ties.append((e, "bridge: indexer model (group scope) + IndexerOps.abs disagrees with the replay of the real op log: " + d[0]))
            else:
                bridge["agree"] += 1
            # hypothesis log_fresh of C06_coherent_core_partial (single-file workspaces): evaluated on the indexer model's state.
            # It is the model-side counterpart of the freshness part of ops_wf: when the real op log satisfies ops_wf and the two
            # states agree, log_fresh = false means the hypothesis of the core theorem is stronger than what the indexer guarantees
            if len(e["ws"]["files"]) == 1:
                bridge["single_file"] += 1
            if b.get("log_fresh"):
                bridge["log_fresh_true"] += 1
            else:
                bridge["log_fresh_false"] += 1
                if e["model"].get("ops_wf") and not d:
                    bridge["log_fresh_false_but_ops_wf"] += 1
                    ties.append((e, "bridge: hypothesis log_fresh of C06_coherent_core_partial is false on the indexer model's state although "
                                    "the real op log satisfies ops_wf and both states agree"))
    except Exception as ex:      # the bridge is an additional tie: its unavailability is recorded, not fatal
        bridge["status"] = "unavailable: %s" % str(ex)[-300:]
    # extraction cross-check: the same side conditions and answers evaluated by vm_compute inside Coq
    xc = [(e["ws"], e["real"], e["model"]) for e in res
          if e["model"] and e["model"].get("run") == "ok" and not e["diffs"] and 10 <= len(e["real"]["oplog"] or []) <= 150][:6]
    ok_xc, msg_xc = L.coq_crosscheck(xc, "C06")
    if not ok_xc:
        ties.append((res[0], "extraction cross-check: Coq's vm_compute disagrees with the extracted model: " + msg_xc[-300:]))
    if ties and not found:
        e, why = min(ties, key=lambda t: len(json.dumps(t[0]["ws"]["files"])))
        fails.append({"kind": "correspondence", "file": why})
        ctx.violation("C06 tie broken (no violating input found by the oracle): " + why,
                      {"property": "C06", "broken": why, "files": e["ws"]["files"], "root": e["ws"]["root"],
                       "disagreeing_workspaces": len(ties), "seed": ctx.seed,
                       "note": "the side conditions of theorem C06_coherent / the model-vs-implementation comparison no longer hold for the current tree"},
                      no_failing_input=True)
        found = True
    ctx.cov.update({
        "evaluations": n_pos,
        "distinct_nontrivial": len(nontrivial),
        "rule": "workspaces from lib/symgen (single file, include chain/star, diamond with a class redefined between the two include paths, "
                "missing include, include nested in blocks) over small name pools, each with token prefixes, single-token edits and "
                "non-ASCII/CRLF injection of its root text; thorough adds LLVM-14 .td corpus roots. Every byte offset 0..=len of every "
                "workspace file is queried (goto_definition + references). non-trivial = distinct workspace with >= 2 answering positions",
        "workspaces": len(wss) + len(cws),
        "workspaces_by_kind": kind_count,
        "positions_answering": n_ans,
        "references_checked": n_refs,
        "ops_replayed": n_ops,
        "skipped_analysis_failed": skipped,
        "traces_validated_against_impl": sum(1 for e in res + cres if e["model"] is not None and not e["diffs"] and "model_crash" not in e["model"]),
        "correspondence_disagreements": len(ties),
        "extraction_crosschecked_in_coq": len(xc),
        "bridge_to_indexer_model": bridge,
        "violating_workspaces": len(bad_inputs),
        "compared": "interval map of every file (order, ranges, symbol ids), name/define_loc/reference_locs of every symbol in them, "
                    "goto_definition and references at every offset, index diagnostic ranges, top-level outline names",
        "hypotheses_checked_on_real_logs": ["toks_sorted", "ops_wf (= op_ids_ok && op_coh_ok at every op)"],
        "samples": samples,
        "exhaustive": False,
    })
    ctx.assumptions += ["the indexer's guarantees about its SymbolMap calls are the checked hypothesis ops_wf (not proven about index.rs)",
                        "identifier tokens are taken from the real parse"]
    vlib.broken_ties_to_violations(ctx, fails, found)


def replay(ctx, path):
    obj = json.load(open(path))
    bindir = vlib.build_harness(True, bins=["symdump"])
    exe = vlib.build_model("symmap")
    w = L.mk_ws(obj["files"], obj["root"], None, hover=False, completion=False, hints="none")
    if obj.get("expect"):
        w["expect"] = obj["expect"]
    e = L.evaluate(bindir, exe, [w])[0]
    r = e["real"]
    print("implementation: analysis problem:", e["c03"])
    if e["c03"] is None:
        print("implementation: op log:")
        for i, l in enumerate(r["oplog"] or []):
            print("   %3d %s" % (i, l.replace("\t", " ")))
        print("implementation: goto/references runs:", json.dumps(r["at"])[:3000])
        m = e["model"] or {}
        print("model: run=%s wf_bad=%s toks_sorted=%s incoherent=%s" % (m.get("run"), m.get("wf_bad"), m.get("toks_sorted"), m.get("incoherent")))
        print("correspondence differences:", e["diffs"][:5])
        print("oracle (four clauses on the real answers):", json.dumps(e["c06"][:10]))
    bad = bool(e["c06"]) or bool(e["diffs"]) or (e["model"] or {}).get("wf_bad") is not None
    print("REPRODUCED" if bad else "not reproduced")
    return 1 if bad else 0
