"""C07 Incremental consistency: results never depend on the edit history.

Proof: TG.Props.C07 (Coq, model M-host): after ANY history of touches (text edits, added / removed
include statements, root switches) the three salsa inputs, keyed by path and restricted to the source
root, equal those of a fresh host that is given only the final texts (C07_history_independent, by
induction on the history); the raw AnalysisHost API without set_root_file is explicitly not claimed
(C07_raw_api_refuted).  Assumed (trusted base): salsa answers a derived query with what the query
function returns on the current inputs.

Tie (C): every history goes through the real collect_sources / RootDatabase / AnalysisHost (harness
`hostdrive`, memfs mode) and through the extracted model; ids, inputs, read log and include-related
query results are compared after every step.
Oracle = the property on the real code: after every step of every history the observation (root, file
set, file_content and resolved_include_map of the workspace, and the FULL query set of the real
AnalysisHost: diagnostics, links, outline, folding, inlay hints, definition / references / hover at every
offset, completion) is compared, keyed by path, with a freshly started AnalysisHost over the final file
contents.  This is also what tests the salsa assumption."""
import itertools
import json

import hostlib as H
import vlib

THEOREMS = ["C07_history_independent", "C07_history_independent_total", "C07_queries", "C07_raw_api_refuted", "C07_model_is_source",
            "C07_pipeline_history_independent", "C07_nine_queries_history_independent", "C07_analyze_is_from_state"]
TRUSTED = [
    "C07_pipeline_history_independent lifts history independence to b-bridge's whole modelled pipeline (TG.Model.Pipeline: model lexer, preprocessor, "
    "parser, M-host, AST->Core bridge, indexer queries): the salsa / renaming assumption then only concerns the step model query -> real query; "
    "its cone adds the translators t_tokens, t_lextables, t_unicode, t_lexer, t_grammar, t_grammarcert, t_ast and the models of the groups lexprep, parser, bridge, scope",
    "tools/translate/t_filesystem.py (parser + operation table: renders the CURRENT file_system.rs / analysis.rs / vfs.rs into coq/gen/GenFileSystem.v) "
    "and the contracts of coq/model/FsOps.v (HashMap / Vec / VecDeque / loops / salsa inputs / env / disk / trait FileSystem); "
    "list_includes is tied by shape only (its meaning over the item abstraction is FsOps.ast_list_includes)",
    "Coq 8.16.1 kernel (vm_compute only inside Examples and the raw-API counterexample)",
    "salsa 0.16 returns for a derived query what the query function returns on the current inputs, and the query functions "
    "(parse, line_index, index, handlers) read file_content / resolved_include_map only for files of the source root and are invariant "
    "under renaming of FileIds: this reduction from 'every query' to 'the three inputs keyed by path' is ASSUMED in Coq and TESTED here "
    "(full query set of the real AnalysisHost after every history vs a fresh host)",
    "abstraction of the parse: a text is represented by its Include/Class descendants in document order (computed by the harness from the real parse tree)",
    "path algebra: theorem for every PathAlg with a decidable equality; the tie uses relative paths without '.', '..' or empty segments",
    "histories are sequences of Server::set_file_content operations (set_open_document, assign_or_get_file_id, set_file_content, set_root_file); "
    "static disk during one session; u32 FileId overflow not modelled",
    "extraction (ExtrOcamlBasic), host_driver.ml, harness hostdrive.rs / MemFs, lib/hostlib.py",
]

FORMS = ["inc", "inc", "inc_if", "inc_let", "inc_foreach", "inc_deep", "inc_else"]


def fname(i):
    return "f%d.td" % i


# ---- the small exhaustive family: 2 touched paths x 3 texts, one file only on disk
ANON_A = "class AA { int y = 1; }\ndef : AA { int z = 2; }\ndef : AA { int w = 3; }"          # hover on z / w shows anonymous_N
ANON_B = "class BB;\ndefset list<BB> SB = { def : BB; def named : BB; def : BB; }\nmulticlass MB { def X; }\ndefm : MB;"
A = [H.build_text([("inc", "b.td"), ("raw", "class A : B;"), ("raw", ANON_A)]),
     H.build_text([("inc", "c.td"), ("raw", "class A : C;")]),      # same statement range, other target
     H.build_text([("raw", "class A;")])]
B = [H.build_text([("raw", "class B;")]),
     H.build_text([("inc", "c.td"), ("raw", "class B : C;"), ("raw", ANON_B)]),
     H.build_text([("inc", "a.td"), ("raw", "class B;")]),
     H.build_text([("inc", "a.td"), ("raw", "def d : A;")])]      # mutual include a <-> b: diagnostics depend on which one is the root
SHARED = H.build_text([("raw", "class Shared;")])                  # the same text sent for two different documents
OPS = [("a.td", t) for t in A + [SHARED]] + [("b.td", t) for t in B + [SHARED]]
DISK = [["a.td", A[2]], ["b.td", B[0]], ["c.td", H.build_text([("raw", "class C;")])]]


def small_histories(L):
    for seq in itertools.product(range(len(OPS)), repeat=L):
        yield {"mode": "memfs", "files": DISK, "include_dir": None, "full": True,
               "history": [["touch", OPS[i][0], OPS[i][1]] for i in seq],
               "gen": "small family, ops %s" % (list(seq),)}


# ---- line-ending-only edits: the same lines with LF, CRLF and lone CR (byte offsets, hence every range, differ)
EOL_A = [("inc", "b.td"), ("raw", "class A : B;"), ("raw", "def d : Missing;")]
EOL_B = [("raw", "class B;"), ("raw", "def e : AlsoMissing;")]
EOL_OPS = [("a.td", H.build_text(EOL_A, eol)) for eol in ("\n", "\r\n", "\r")] + \
          [("b.td", H.build_text(EOL_B, eol)) for eol in ("\n", "\r\n")]
EOL_DISK = [["a.td", EOL_OPS[1][1]], ["b.td", EOL_OPS[3][1]]]


def eol_histories(L):
    for seq in itertools.product(range(len(EOL_OPS)), repeat=L):
        yield {"mode": "memfs", "files": EOL_DISK, "include_dir": None, "full": True,
               "history": [["touch", EOL_OPS[i][0], EOL_OPS[i][1]] for i in seq],
               "gen": "line-ending family (LF / CRLF / CR of the same lines), ops %s" % (list(seq),)}


# ---- large workspaces: FileIds persist across root switches, so a small root can hold files with large ids
def big_history(n, late, back):
    files = [["i%03d.td" % i, H.build_text([("decl", "K%03d" % i)])] for i in range(n)]
    big = H.build_text([("inc", "i%03d.td" % i) for i in range(n)] + [("raw", "class Big : K%03d;" % (n - 1))])
    small = H.build_text([("inc", "i%03d.td" % i) for i in late] + [("raw", "class Small%d : K%03d;" % (k, i)) for k, i in enumerate(late)])
    hist = [["touch", "big.td", big], ["touch", "small.td", small]]
    if back:
        hist += [["touch", "big.td", big], ["touch", "small.td", small]]
    return {"mode": "memfs", "files": files, "include_dir": None, "full": True, "history": hist,
            "gen": "large workspace: %d includes, then a small root including %s" % (n, late)}


def big_histories(quick):
    out = [big_history(70, [69], False), big_history(85, [84, 66, 3], False), big_history(100, [99, 64], True)]
    if not quick:
        out += [big_history(130, [129, 128, 65], True), big_history(200, [199, 150, 70, 1], False)]
    return out


def rand_text(rng, i, n):
    v = rng.randint(0, 2)
    parts = [("decl", "C%d_%d" % (i, v))]
    for _ in range(rng.choice([0, 1, 1, 2, 3])):
        tgt = fname(rng.randrange(n)) if rng.random() < 0.8 else "m%d.td" % rng.randrange(2)
        r = rng.random()
        if r < 0.06:
            parts.append(("inc_unreached", tgt))
        elif r < 0.10:
            parts.append(("inc_nopath",))
        else:
            parts.append((rng.choice(FORMS), tgt))
    if rng.random() < 0.6:
        parts.append(("raw", "def d%d : C%d_%d;" % (i, rng.randrange(n), rng.randint(0, 2))))
    if rng.random() < 0.35:      # generated names (anonymous_N): counters must restart with every analysis
        parts.append(("raw", "class AN%d { int y = 1; }\ndef : AN%d { int z%d = 2; }" % (i, i, v)))
    if rng.random() < 0.3:
        parts.append(("raw", "class DS%d;\ndefset list<DS%d> S%d = { def : DS%d; def : DS%d; }" % (i, i, i, i, i)))
    if rng.random() < 0.15:
        parts.append(("raw", "multiclass MC%d { def X; }\ndefm : MC%d;" % (i, i)))
    if rng.random() < 0.1:
        parts.append(("synerr",))
    if rng.random() < 0.5:
        parts.append(("raw", "class E%d { int x = 1; }\ndef e%d : E%d { let x = 2; }" % (i, i, i)))
    rng.shuffle(parts)
    return H.build_text(parts)


def random_history(rng, quick):
    n = rng.randint(2, 5)
    variants = {i: [rand_text(rng, i, n) for _ in range(3)] for i in range(n)}
    files = [[fname(i), variants[i][0]] for i in range(n) if rng.random() < 0.8]
    inc = None
    if rng.random() < 0.25:
        inc = "inc"
        j = rng.randrange(n)
        files.append(["inc/" + fname(j), variants[j][1]])
        files.append(["inc/m0.td", "class M0;\n"])
    L = rng.randint(2, 6 if quick else 10)
    hist = []
    for _ in range(L):
        i = rng.randrange(n)
        j = i if rng.random() < 0.85 else rng.randrange(n)          # sometimes the text of another document
        hist.append(["touch", fname(i), rng.choice(variants[j])])
    return {"mode": "memfs", "files": files, "include_dir": inc, "full": True, "history": hist,
            "gen": "random n=%d L=%d" % (n, L)}


def gen_cases(ctx):
    L = 3 if ctx.quick else 4
    cases = list(small_histories(L))
    cases += list(eol_histories(3 if ctx.quick else 4))
    cases += big_histories(ctx.quick)
    nsmall = len(cases)
    nrand = 250 if ctx.quick else 2500
    for _ in range(nrand):
        cases.append(random_history(ctx.rng, ctx.quick))
    return cases, nsmall, nrand, L


def pub(c):
    return {k: c[k] for k in ("mode", "files", "include_dir", "history")}


def check(ctx, bindir, exe, cases):
    """-> (violations {kind: (case, step, detail)}, ties, stats)"""
    res = H.evaluate(bindir, exe, cases, timeout_ms=4000)
    # a history that fails as a whole (panic / hang / abort of the child): find the first failing step by
    # running its proper prefixes; the steps before it are compared as usual, the failing step is compared
    # with its own fresh host (both failing is not a C07 matter)
    failed_at = {}
    for ci, (c, r) in enumerate(zip(cases, res)):
        if "steps" in r["impl"] or r["impl"].get("skipped"):
            continue
        n = len(c["history"])
        prefixes = [dict(c, history=c["history"][:k]) for k in range(1, n)]
        pres = H.run_harness(bindir, prefixes, 4000) if prefixes else []
        k_fail, good = n - 1, None
        for k, pr in enumerate(pres):
            if "steps" in pr:
                good = pr
            else:
                k_fail = k
                break
        failed_at[ci] = (k_fail, r["impl"])
        r["impl_failure"] = r["impl"]
        r["impl"] = good if good is not None else {"steps": []}
    # the fresh hosts, deduplicated
    fresh, order = {}, []
    want = []                       # (case index, step, fresh key)
    for ci, (c, r) in enumerate(zip(cases, res)):
        n = len(r["impl"]["steps"]) if "steps" in r["impl"] else len(c["history"])
        if ci in failed_at:
            n = failed_at[ci][0] + 1
        for k in range(n):
            f = H.fresh_case(c, k, full=True)
            key = H.case_key(f)
            if key not in fresh:
                fresh[key] = f
                order.append(key)
            want.append((ci, k, key))
    # "a freshly started analysis", literally: every fresh host in a NEW process, evaluating nothing but the
    # real AnalysisHost (process-wide state of earlier analyses cannot leak into the reference)
    fres = dict(zip(order, H.run_isolated(bindir, [fresh[k] for k in order], 4000)))
    viol, ties, stats = {}, [], {"comparisons": 0, "nontrivial": set(), "root_switch": 0, "set_change": 0, "map_change": 0,
                                 "fresh_hosts": len(order), "both_fail": 0}

    def note(kind, c, step, detail):
        cur = viol.get(kind)
        if cur is None or (H.case_size(c), step) < (H.case_size(cur[0]), cur[1]):
            viol[kind] = (c, step, detail)

    for ci, (c, r) in enumerate(zip(cases, res)):
        if r["tie"] is not None:
            ties.append((c, r["tie"]))
    for ci, k, key in want:
        c, r, fr = cases[ci], res[ci], fres[key]
        if r["impl"].get("skipped") or fr.get("skipped"):
            continue
        hist_ok, fresh_ok = "steps" in r["impl"] and k < len(r["impl"]["steps"]), "steps" in fr
        if not hist_ok:
            if ci in failed_at and k == failed_at[ci][0]:
                if fresh_ok:
                    note("history-fails-fresh-does-not", c, k, {"history": failed_at[ci][1], "fresh_case": fresh[key]})
                else:
                    stats["both_fail"] += 1
            continue
        if not fresh_ok:
            note("fresh-fails-history-does-not", c, k, {"fresh": fr, "fresh_case": fresh[key]})
            continue
        a, b = H.proj_inputs(r["impl"]["steps"][k]), H.proj_inputs(fr["steps"][0])
        stats["comparisons"] += 1
        d = H.first_diff(a, b)
        if d is not None:
            key_, x, y = d
            where = []
            while isinstance(x, dict) and isinstance(y, dict):
                sub = H.first_diff(x, y)
                if sub is None:
                    break
                where.append(sub[0]); x, y = sub[1], sub[2]
            if isinstance(x, list) and isinstance(y, list):      # first differing element
                for u, v in zip(x + [None] * len(y), y + [None] * len(x)):
                    if u != v:
                        x, y = u, v
                        break
            x, y = {"/".join(where): x}, {"/".join(where): y}
            note("differs:" + key_, c, k, {"key": key_, "after_history": x, "fresh_host": y, "fresh_case": fresh[key]})
        if k > 0:
            p0, p1 = H.proj_inputs(r["impl"]["steps"][k - 1]), a
            ch = False
            if p0["root"] != p1["root"]:
                stats["root_switch"] += 1; ch = True
            if p0["files"] != p1["files"]:
                stats["set_change"] += 1; ch = True
            if p0["resolved_include_map"] != p1["resolved_include_map"]:
                stats["map_change"] += 1; ch = True
            if ch:
                stats["nontrivial"].add(vlib.sha(json.dumps([c["files"], c["include_dir"], c["history"][:k + 1]])))
    return res, viol, ties, stats


def run(ctx):
    bindir = vlib.build_harness(False, bins=["hostdrive"])
    fails = vlib.proof_step(ctx, "TG.Props.C07", THEOREMS, ["props/C07.vo"], TRUSTED,
                            translators=["t_tokens", "t_lextables", "t_unicode", "t_lexer", "t_grammar", "t_grammarcert", "t_ast", "t_completion", "t_foldkinds", "t_filesystem"])
    exe = vlib.build_model("host")
    H.calibrate(bindir)
    cases, nsmall, nrand, L = gen_cases(ctx)
    res, viol, ties, stats = check(ctx, bindir, exe, cases)
    # extraction cross-check: a slice of the batch evaluated by vm_compute inside Coq vs the extracted program
    if H.LAST_BATCH:
        nx, xbad = H.crosscheck_last_batch(40 if ctx.quick else 150)
        ctx.cov["extraction_crosschecked_in_coq"] = nx
        if xbad:
            fails.append({"kind": "extraction-crosscheck", "file": "extracted host_run differs from vm_compute of TG.Model.HostInst.run_digests",
                          "detail": xbad[:3]})
    found = False
    for kind, (c, step, detail) in sorted(viol.items()):
        found = True
        ctx.violation("C07 %s: after the history the analysis differs from a freshly started analysis over the final file contents" % kind,
                      {"property": "C07", "kind": kind, "step": step, "detail": detail, "case": pub(c),
                       "reached": H.reached_of(c), "gen": c.get("gen"), "seed": ctx.seed})
    if ties and not found:
        c, (step, key, io, mo) = min(ties, key=lambda x: H.case_size(x[0]))
        fails.append({"kind": "correspondence", "file": "model M-host vs implementation differ on '%s'" % key})
        ctx.violation("C07 correspondence broken: model and implementation differ on '%s' (history and fresh host still agree)" % key,
                      {"property": "C07", "broken": "correspondence M-host (Includes.v/Host.v) vs file_system.rs/analysis.rs",
                       "key": key, "step": step, "implementation": io, "model": mo, "case": pub(c),
                       "reached": H.reached_of(c), "seed": ctx.seed, "disagreeing_cases": len(ties)},
                      no_failing_input=True)
        found = True
    ran = sum(1 for r in res if not r["impl"].get("skipped"))
    ctx.cov.update({
        "evaluations": stats["comparisons"],
        "histories": ran,
        "fresh_hosts_started": stats["fresh_hosts"],
        "distinct_nontrivial": len(stats["nontrivial"]),
        "rule": "every history of length %d over {a.td, b.td} x 4-5 texts each (include added / removed / retargeted on the same range, cycle with root-order dependent diagnostics, "
                "root switches, one text common to both documents; c.td only on disk), every history of that length over line-ending-only variants "
                "(LF / CRLF / CR of the same lines, root and opened included document), large workspaces (70..100 includes, then root switches to small "
                "files including late ones: FileIds persist) = %d histories, plus %d random histories (2..%d touches over 2..5 files, 3 texts per file: "
                "includes nested in blocks, missing targets, INCLUDE_DIR, semantic references across files, syntax errors); "
                "EVERY step of every history is compared with a fresh host; non-trivial = distinct history prefix whose last step changed the root, "
                "the file set or an include map" % (L, nsmall, nrand, 6 if ctx.quick else 10),
        "transitions": {"root_switch": stats["root_switch"], "file_set_change": stats["set_change"], "include_map_change": stats["map_change"]},
        "history_and_fresh_both_fail": stats["both_fail"],
        "exhaustive": False,
        "samples": [dict(pub(c), gen=c.get("gen")) for c in (cases[0], cases[nsmall // 2], cases[-1])],
        "traces_validated_against_impl": sum(1 for r in res if "steps" in r["impl"] and r["tie"] is None),
        "correspondence_disagreements": len(ties),
        "compared": "history vs fresh host, keyed by path: root, file set, file_content + resolved_include_map of the workspace, diagnostics, links, outline, "
                    "folding, inlay hints, definition/references/hover at every offset, completion; model vs implementation: ids, inputs, read log, links, not-found, outline",
    })
    ctx.assumptions += ["static disk during a session", "histories are Server::set_file_content operations (the raw AnalysisHost API without set_root_file is not claimed: C07_raw_api_refuted)"]
    vlib.broken_ties_to_violations(ctx, fails, found)


def replay(ctx, path):
    obj = json.load(open(path))
    case = obj["case"]
    case["full"] = True
    for t, fl in (obj.get("reached") or {}).items():
        H.REACHED.setdefault(t, fl)
    bindir = vlib.build_harness(False, bins=["hostdrive"])
    exe = vlib.build_model("host")
    res, viol, ties, stats = check(ctx, bindir, exe, [case])
    print("after the history:", json.dumps(res[0]["impl"])[:3000])
    print("model:", json.dumps(res[0]["model"])[:2000])
    for kind, (c, step, detail) in sorted(viol.items()):
        print("oracle (history vs fresh host):", kind, "step", step, json.dumps(detail, default=str)[:3000])
    print("tie:", json.dumps(ties, default=str)[:1500])
    bad = bool(viol) or bool(ties)
    print("REPRODUCED" if bad else "not reproduced")
    return 1 if bad else 0
