"""C05 Name resolution: go-to-definition and references follow TableGen scoping.

1. harness `idedump` (real Analysis::{goto_definition, references, diagnostics} at EVERY offset of every file)
   and `coreast` (the REAL parse trees read through the real typed accessors of syntax::ast, serialised as the
   typed AST of coq/model/CoreAst.v) are built against the current tree;
2. the Coq cone props/C05.vo is re-checked: theorems about the executable model of index.rs / scope.rs /
   context.rs (coq/model/Scope.v, Indexer.v) against the declarative resolver coq/model/ScopeSpec.v, for ALL
   programs of the proven fragment; Print Assumptions; forbidden-declaration scan;
3. correspondence: generated multi-file programs go through the real code and through the extracted model
   (`scope_run model`, fed with coreast's serialisation of the real parse); goto_definition and references at
   every offset and the diagnostics (file, range, message class) must be equal;
4. oracle: the scope-tracking generator lib/tdgen.py knows the use -> declaration map by construction
   (independent of model and spec): every use must land exactly on its declaring identifier in the right file,
   references on a declaration must be exactly its uses, a use after the declaring construct has ended must
   have no definition and a "symbol not found" diagnostic; the extracted specification (`scope_run spec`) is
   compared with the same map (spec sanity) and a sample of the programs is audited with llvm-tblgen.
"""
import json
import os
import random
import shutil
import subprocess
import time

import vlib
import scopelib as sl
import synlib
import tdgen

THEOREMS = ["C05_block_scopes_end", "C05_locals_do_not_leak", "C05_out_of_scope_partial", "C05_unresolved_reported",
            "C05_resolution_values_partial", "C05_resolution_blocks_partial", "C05_goto_newest_entry",
            "C05_reference_logged", "C05_declarations_stable", "C05_resolution_partial", "C05_resolution_workspace_partial", "C05_resolution_field_access_partial", "C05_field_lookup_visited_set", "C05_subclass_visited_set"]
TRUSTED = [
    "Coq 8.16.1 kernel (coqc; vm_compute only in the non-vacuity Examples); no axioms",
    "statement of the declarative resolver coq/model/ScopeSpec.v (read against the TableGen scoping rules; "
    "compared on every run with the generator's by-construction map and, on a sample, with llvm-tblgen-14)",
    "hand-written model of index.rs / index/scope.rs / index/context.rs / index/bang_operator.rs / symbol_map*.rs "
    "in coq/model/{Scope,BangOps,Indexer}.v, tied to the code by the correspondence run of this check "
    "(goto_definition + references at every offset, diagnostics by (file, range, message class)) AND, for Core programs, by "
    "translation + proof: the indexer functions of IndexerSource, all bang operators, scope.rs, context.rs and the goto / references "
    "handlers, symbol_map/typ.rs (entries below); the accessor table remains a trusted table",
    "modelled contracts: id_arena (ids = allocation order), HashMap (finite map), indexmap::IndexMap (insertion "
    "order, re-insert keeps position), iset::IntervalMap (insert replaces on an equal interval, "
    "values_overlap in (start,end) order), rowan text ranges as produced by the real parser",
    "the CoreAst the model runs on is computed INSIDE Coq from the texts (group bridge: model lexer/parser over the "
    "generated tables, coq/model/AstToCore.v through the generated accessor table coq/gen/GenAst.v, coq/model/Pipeline.v "
    "include resolution; extracted unit `bridge`; theorems coq/props/Bridge.v) and is required, on EVERY workspace of "
    "the run, to be character for character what the observer harness/src/bin/coreast.rs reads off the REAL parse tree "
    "through the real typed accessors (a difference or a bridge unit that does not build is a broken tie): coreast.rs "
    "is therefore a cross-check, not part of the trusted base for Core programs; trusted instead: the translators "
    "tools/translate/{t_tokens,t_lextables,t_unicode,t_lexer,t_grammar,t_grammarcert,t_ast}.py (re-run by this check; tied to the "
    "code by C01/C02/C04/C15), the hand models of the hand-written ast.rs methods in AstToCore.v (now tied to ast.rs / lib.rs by "
    "props/AstSource.v: translators t_astmethods, t_libglue; re-checked by this check), "
    "coq/extract/bridge_driver.ml",
    "observer harness/src/bin/idedump.rs, Coq extraction (ExtrOcamlBasic only), OCaml driver coq/extract/scope_driver.ml",
    "generator lib/tdgen.py (its own scope tracking is the oracle), this Python driver",
]
BINS = ["coreast", "idedump"]

# regression inputs: defects found by this check and repaired in /repo (fixed: lines D27, D28 of known_findings.txt)
DIRECTED = [
    {"key": "defvar-untyped-init",
     "text": "defvar x = !cond(1: 1, true: 2); def D { int y = x; }",
     "use": [49, 50], "decl": [7, 8]},
    {"key": "defset-name-unresolvable",
     "text": "class A; defset list<A> S = { def q : A; }  def E { list<A> y = S; }",
     "use": [64, 65], "decl": [24, 25]},
    {"key": "foreach-untyped-init",
     "text": "foreach i = !cond(1: [1], true: [2]) in { def D#i { int y = i; } }",
     "use": [60, 61], "decl": [8, 9]},
]

# inheritance graphs in which an ancestor is reached twice before the parent that declares the field (lib/tdgen.py)
DIRECTED += tdgen.diamond_cases()
# a class forward-declared (also in an included header) and defined later: the later definition is what the name denotes
DIRECTED += tdgen.forward_class_cases()
# a local name spelled like an earlier def / defset: the innermost declaration wins
DIRECTED += tdgen.shadowed_def_cases()
# an include statement inside a block body (quick tier: the random generator keeps includes at top level)
DIRECTED += tdgen.nested_include_cases()


def gen_batch(ctx, n, probe_every=3):
    progs = []
    for i in range(n):
        size = ctx.rng.choice([2, 3, 5, 8] if ctx.quick else [3, 5, 8, 12, 16])
        # includes INSIDE block bodies (outside the fragment of C05_resolution: oracle + correspondence only) are generated in the
        # thorough tier (the quick tier keeps the distribution the seeded changes were measured on)
        progs.append(tdgen.generate(ctx.rng, size=size, probe=(i % probe_every == 0),
                                    feats=None if ctx.quick else {"include-in-block": True}))
    return progs


def observe(bindir, exe, wss):
    I = sl.impl(bindir, wss)
    C = sl.core_checked(bindir, wss, [])
    M = sl.model(exe, C, wss)
    return I, C, M


def llvm_audit(ctx, progs, limit):
    """llvm-tblgen accepts well-scoped programs and rejects out-of-scope probes (test only; spec sanity)"""
    exe = shutil.which("llvm-tblgen-14") or shutil.which("llvm-tblgen")
    res = {"tool": exe, "accepted": 0, "rejected_probe": 0, "skipped": 0, "disagree": []}
    if not exe:
        return res
    d = os.path.join(vlib.CACHE, "scope", "audit-%d" % os.getpid())
    for p in progs:
        if res["accepted"] + res["rejected_probe"] >= limit:
            break
        if not tdgen.uses_llvm14_only(p):
            res["skipped"] += 1
            continue
        shutil.rmtree(d, ignore_errors=True)
        os.makedirs(d)
        for path, text in p.files.items():
            with open(os.path.join(d, os.path.basename(path)), "w") as f:
                f.write(text)
        rc, out = vlib.sh([exe, "-I", d, os.path.join(d, os.path.basename(p.root)), "-o", os.devnull], timeout=10)
        if "[timeout]" in out:
            res["timeout"] = res.get("timeout", 0) + 1     # (expansion does not terminate: nothing to compare)
            continue
        if p.notfound:
            if rc != 0:
                res["rejected_probe"] += 1
            else:
                res["disagree"].append({"files": p.files, "why": "llvm-tblgen accepts an out-of-scope use"})
        else:
            if rc == 0 or ("assertion failed" in out and out.count("error:") == out.count("error: assertion failed")):
                res["accepted"] += 1
            else:
                res["disagree"].append({"files": p.files, "why": "llvm-tblgen rejects: " + out[-400:]})
    shutil.rmtree(d, ignore_errors=True)
    return res


def shrink(bindir, prog_ws, still_fails, budget_s=30):
    """line-based delta debugging of the root file (keeps the failure predicate true)"""
    t0 = time.time()
    ws = {"files": dict(prog_ws["files"]), "root": prog_ws["root"]}
    for path in list(ws["files"]):
        lines = ws["files"][path].split("\n")
        n = 2
        while len(lines) >= 2 and time.time() - t0 < budget_s:
            chunk = max(1, len(lines) // n)
            reduced = False
            for i in range(0, len(lines), chunk):
                cand = lines[:i] + lines[i + chunk:]
                w2 = {"files": dict(ws["files"]), "root": ws["root"]}
                w2["files"][path] = "\n".join(cand)
                try:
                    if still_fails(w2):
                        lines, ws, reduced = cand, w2, True
                        break
                except Exception:
                    pass
            if not reduced:
                if chunk == 1:
                    break
                n = min(len(lines), n * 2)
    return ws


def run(ctx):
    t0 = time.time()
    bindir = vlib.build_harness(False, bins=BINS)
    fails = vlib.proof_step(ctx, "TG.Props.C05", THEOREMS, ["props/C05.vo"], TRUSTED,
                            translators=sl.BRIDGE_TRANSLATORS + sl.INDEXER_TRANSLATORS + sl.HANDLER_TRANSLATORS)
    sl.source_tie(ctx, fails, handlers=True)
    synlib.ast_source_step(ctx, fails)     # the hand-written ast.rs accessor methods + lib.rs glue = the bridge's hand versions
    try:
        exe = vlib.build_model("scope")
    except vlib.BuildError as ex:
        exe = None
        fails.append({"kind": "extraction", "error": str(ex)[-1500:]})
    n = 150 if ctx.quick else 1500
    progs = gen_batch(ctx, n)
    wss = [p.workspace() for p in progs]
    I, C, M = [], [], []
    bridge_stats = {}
    for chunk in vlib.chunked(list(range(len(wss))), 100):
        sub = [wss[k] for k in chunk]
        i = sl.impl(bindir, sub)
        c = sl.core_checked(bindir, sub, fails, bridge_stats)
        m = sl.model(exe, c, sub) if exe else [None] * len(sub)
        I += i
        C += c
        M += m
    found = False
    n_corr = n_noncore = n_oracle = 0
    feats = {}
    texts = set()
    nontrivial = 0
    broken_corr = []
    samples = []
    for k, (p, w, i, c, m) in enumerate(zip(progs, wss, I, C, M)):
        key = json.dumps(w["files"], sort_keys=True)
        if key not in texts and len(p.uses) >= 3:
            nontrivial += 1
        texts.add(key)
        for f in p.features:
            feats[f] = feats.get(f, 0) + 1
        if i.get("panic"):
            ctx.violation("the indexer panicked on a generated Core program: " + str(i["panic"])[:200],
                          {"property": "C05", "workspace": w, "panic": i["panic"]})
            found = True
            continue
        orc = sl.oracle_c05(p, i)
        n_oracle += 1
        if orc:
            what, det = orc[0]
            ctx.violation("%s: %s" % (what, json.dumps(det)[:300]),
                          {"property": "C05", "workspace": w, "oracle_failures": [list(x) for x in orc[:10]],
                           "expected_uses": p.uses, "expected_decls": p.decls, "expected_notfound": p.notfound})
            found = True
        if c.get("noncore") or c.get("panic"):
            n_noncore += 1
            continue
        if m is not None:
            n_corr += 1
            bad = sl.correspond(w, i, c, m)
            if bad:
                broken_corr.append({"workspace": w, "disagreements": bad[:5]})
        if len(samples) < 3:
            samples.append({"files": w["files"], "uses": len(p.uses), "declarations": len(p.decls),
                            "out_of_scope_probes": len(p.notfound), "features": sorted(p.features)})
    # directed inputs: defects of the unchanged tree already reported (known findings when registered)
    known = vlib.known_keys("C05")
    dws = [{"files": d.get("files", {"/w/main.td": d["text"]}), "root": "/w/main.td"} for d in DIRECTED]
    for d, o in zip(DIRECTED, sl.impl(bindir, dws)):
        at = sl.impl_at(o, "/w/main.td")
        got = at[d["use"][0]][0]
        if got != ("/w/main.td", d["decl"][0], d["decl"][1]):
            desc = "%r: use at %s has definition %r, expected the declaration at %s; diagnostics %r" % (
                d["text"], d["use"], got, d["decl"], o["diagnostics"]["/w/main.td"])
            if d["key"] in known:
                ctx.known(d["key"], known[d["key"]])
            else:
                ctx.violation(desc, {"property": "C05", "workspace": dws[DIRECTED.index(d)], "directed": d})
                found = True
    # variable-binding operators over a sequence of unknown type: the variable used in the body resolves
    unk = [c for c in tdgen.unknown_operand_cases() if c["uses"]]
    for c, o in zip(unk, sl.impl(bindir, [{"files": x["files"], "root": x["root"]} for x in unk])):
        at = sl.impl_at(o, "/w/main.td")
        for (lo, hi, dlo, dhi) in c["uses"]:
            if at[lo][0] != ("/w/main.td", dlo, dhi):
                ctx.violation("%s over an operand of unknown type: the variable used in the body at %d has "
                              "definition %r, expected [%d,%d)" % (c["op"], lo, at[lo][0], dlo, dhi),
                              {"property": "C05", "workspace": {"files": c["files"], "root": c["root"]},
                               "directed": {"use": [lo, hi], "decl": [dlo, dhi], "key": "unknown-sequence"}})
                found = True
    # the declarative resolver ScopeSpec (extracted) on the programs of its fragment (one or several files): against
    # the generator's by-construction map (spec sanity) and against the model's use log (what C05_resolution states)
    spec_stats = {"fragment_programs": 0, "multi_file": 0, "well_scoped_for_the_spec": 0, "field_accesses": 0,
                  "field_accesses_abstained": 0, "spec_vs_generator": 0, "spec_vs_model": 0}
    if exe:
        one = [(p, w, c) for p, w, c in zip(progs, wss, C) if not c.get("noncore") and not c.get("panic")]
        S = sl.model(exe, [c for _p, _w, c in one], [w for _p, w, _c in one], cmd="spec")
        for (p, w, c), sp in zip(one, S):
            if sp is None or sp.get("error") or not sp["frag"]:
                continue
            spec_stats["fragment_programs"] += 1
            spec_stats["multi_file"] += len(w["files"]) > 1
            spec_stats["well_scoped_for_the_spec"] += bool(sp["well_scoped"])
            files = c["files"]
            got = {(files[e[0]], e[1], e[2]): (None if e[3] is None else (files[e[3][0]], e[3][1], e[3][2])) for e in sp["spec"]}
            exp = {(u[0], u[1], u[2]): p.decls[u[3]] for u in p.uses}
            exp.update({k: None for k in p.notfound})
            # field accesses `v.f`: the typed resolver ScopeSpecT knows the type of v only when it is written down
            # (class-typed field / template argument, defvar of an identifier or class value, def name, class value);
            # elsewhere it lists the use as unresolved (it ABSTAINS; C05_resolution does not speak about that program)
            fsites = {(d["path"], d["lo"], d["hi"]) for d in p.sites if d["kind"] == "field-suffix"}
            abstained = {k for k, v in exp.items() if k in fsites and v is not None and got.get(k, "missing") is None}
            spec_stats["field_accesses"] += len([k for k in exp if k in fsites])
            spec_stats["field_accesses_abstained"] += len(abstained)
            if any(got.get(k, "missing") != v for k, v in exp.items() if k not in abstained):
                spec_stats["spec_vs_generator"] += 1
                fails.append({"kind": "spec-sanity", "file": "coq/model/ScopeSpecT.v vs lib/tdgen.py", "workspace": w})
            abst = {(files.index(k[0]), k[1], k[2]) for k in abstained}
            if [e for e in sp["spec"] if e[3] is not None] != [e for e in sp["model"] if (e[0], e[1], e[2]) not in abst]:
                spec_stats["spec_vs_model"] += 1
                fails.append({"kind": "spec-vs-model", "file": "coq/model/ScopeSpecT.v vs coq/model/Indexer.v", "workspace": w})
    ctx.cov["scope_spec"] = spec_stats
    ctx.cov["core_ast_from_texts_inside_coq"] = bridge_stats
    if broken_corr:
        fails.append({"kind": "correspondence", "file": "model Indexer.v vs crates/ide/src/index.rs",
                      "disagreements": broken_corr[:3]})
    audit = llvm_audit(ctx, progs, 25 if ctx.quick else 200)
    ctx.cov.update({
        "evaluations": len(progs), "distinct_nontrivial": nontrivial,
        "correspondence_cases": n_corr, "correspondence_disagreements": len(broken_corr),
        "noncore_workspaces": n_noncore, "oracle_cases": n_oracle,
        "queries_compared": sum(sum(v + 1 for v in i.get("len", {}).values()) for i in I if not i.get("panic")),
        "rule": "generated well-scoped multi-file Core programs (lib/tdgen.py): model == implementation for "
                "goto_definition/references at every offset and diagnostics; implementation == generator's "
                "by-construction use->declaration map; out-of-scope probes not resolved and reported",
        "input_distribution": {"size": "2-8 top-level statements per file (quick) / 3-16 (thorough)",
                               "files": "1-3 with nested includes", "probe": "every third program carries one "
                               "out-of-scope use", "features": dict(sorted(feats.items()))},
        "llvm_tblgen_audit": {k: (v if k != "disagree" else len(v)) for k, v in audit.items()},
        "samples": samples, "wall_s": round(time.time() - t0, 1),
    })
    if audit["disagree"]:
        ctx.cov["llvm_tblgen_disagreements"] = audit["disagree"][:3]
    vlib.broken_ties_to_violations(ctx, fails, found)


def replay(ctx, path):
    obj = json.load(open(path))
    w = obj.get("workspace")
    if not w:
        print(json.dumps(obj, indent=1)[:4000])
        print("replay: this file names a broken proof obligation / tie, not an input; re-run ./check C05")
        return 1
    bindir = vlib.build_harness(False, bins=BINS)
    exe = vlib.build_model("scope")
    I, C, M = observe(bindir, exe, [w])
    for p, t in w["files"].items():
        print("--- %s\n%s" % (p, t))
    print("implementation diagnostics:", json.dumps(I[0].get("diagnostics")))
    for p in w["files"]:
        print("implementation goto/references runs in", p, ":",
              json.dumps([[e["o"], e["def"], e["refs"]] for e in I[0].get("at", {}).get(p, [])])[:3000])
    print("model:", json.dumps(M[0])[:3000] if M[0] else "(workspace outside Core: %s)" % C[0].get("noncore"))
    print("recorded:", json.dumps(obj.get("oracle_failures", obj.get("directed")))[:3000])
    failing = False
    if M[0] is not None:
        bad = sl.correspond(w, I[0], C[0], M[0])
        if bad:
            print("model/implementation disagree:", bad[0][:300])
            failing = True
    if obj.get("expected_uses") is not None:
        p = tdgen.Prog()
        p.files, p.root = w["files"], w["root"]
        p.uses = [tuple(u) for u in obj["expected_uses"]]
        p.decls = {k: tuple(v) for k, v in obj["expected_decls"].items()}
        p.decl_kind = {k: k.split(":")[0] for k in p.decls}
        p.notfound = [tuple(x) for x in obj["expected_notfound"]]
        orc = sl.oracle_c05(p, I[0])
        for what, det in orc[:5]:
            print("FAILS:", what, json.dumps(det)[:300])
        failing = failing or bool(orc)
    if obj.get("directed"):
        d = obj["directed"]
        got = sl.impl_at(I[0], "/w/main.td")[d["use"][0]][0]
        ok = got == ("/w/main.td", d["decl"][0], d["decl"][1])
        print("directed input: definition at", d["use"], "=", got, "expected", d["decl"])
        failing = failing or not ok
    if failing:
        print("VIOLATION property=C05 replay=%s" % path)
        return 1
    print("replay: the implementation now satisfies the property on this input")
    return 0
