"""C17 Range validity of every analysis result.

Proof: TG.Props.C17 (Coq, partial): for ALL op sequences whose range arguments are valid in the workspace texts
(`ops_ranges_wf ws ops`), every range the symbol-map model stores or returns (definition / reference locations,
ranges handed to inlay_hint, define_loc / reference_locs of every symbol, index diagnostics) is valid:
workspace file, lo <= hi <= byte length, UTF-8 character boundaries (`C17_range_valid_meaning`); and every such
range is literally the range argument of an op (`C17_ranges_come_from_ops`).
Tree part (imports C01/C02 of the parser group and Folding of the outline group): for the parse of ANY text with the
grammar regenerated from the current sources, syntax-error ranges, every node / token range, every
`range_excluding_trivia` of a node (document links) and every folding range are valid in the file
(`C17_parse_ranges_valid`; `C17_tree_ranges_valid` / `C17_folding_ranges_valid` for ANY green tree). The ties of
those models to parser.rs / grammar/*.rs / folding_range.rs / utils.rs are the ones of checks C01, C02, C18.
Tie (C): the real indexer runs on every generated workspace with hook H3; the extracted model replays the REAL
op log; `ops_ranges_wf` is evaluated on the real log and the real texts (code points -> model UTF-8 lengths);
interval maps, symbols, goto/references at every offset and index-diagnostic ranges are compared.
Oracle (covers the part that is not proved: tree-derived ranges): EVERY range of EVERY real result --
diagnostics, document symbols and children, folding ranges, links (+ targets), inlay-hint positions, definition
and reference locations, symbol ranges -- is checked against the workspace file set, the byte length and the
UTF-8 boundaries of the text, on inputs with non-ASCII text and CRLF injected next to identifiers."""
import json
import os

import symgen
import symlib as L
import vlib

THEOREMS = ["C17_symbol_ranges_valid_partial", "C17_range_valid_meaning", "C17_ranges_come_from_ops", "C17_nonvacuous",
            "C17_tree_ranges_valid", "C17_folding_ranges_valid", "C17_parse_ranges_valid", "C17_parse_nonvacuous",
            "C17_symbol_ranges_valid_core", "C17_ranges_come_from_ast_core", "C17_pipeline_core", "C17_pipeline_nonvacuous",
            "C17_pipeline_diagnostics"]
# the tree part is stated about the grammar / kind tables regenerated from the current sources
TRANSLATORS = ["t_tokens", "t_lextables", "t_unicode", "t_grammar", "t_grammarcert", "t_foldkinds", "t_ast", "t_symbolmap", "t_completion"]
TRUSTED = [
    "Coq 8.16.1 kernel; vm_compute only in the closed Example",
    "PARTIAL: proved (a) for the ranges that go through the symbol map (op-level model, hypothesis ops_ranges_wf checked on real logs) and "
    "(b) for syntax-error, node, token, trimmed-node (links) and folding ranges of the parse model (C01/C02/C18 models; their ties are "
    "checked by checks C01, C02, C18); NOT proved: that index.rs passes only such ranges paired with the right file, and inlay_hint.rs positions "
    "-- covered by the oracle on every range of every real result",
    "C17_symbol_ranges_valid_core / C17_pipeline_core: (c) for the Core fragment the statement 'index.rs passes only ranges of AST parts of the "
    "file being indexed, paired with that file' is PROVED for group scope's indexer model Indexer.v (any number of files) and composed with "
    "builder bridge's model pipeline Pipeline.analyze; trusted there: Indexer.v + IndexerOps.abs = index.rs + symbol_map.rs (checked state "
    "equality in checks/C06.py, evidence bridge_to_indexer_model) and harness coreast = AstToCore.core_of_tree (bridge's checked tie); "
    "translator t_ast (GenAst, used by the pipeline model)",
    "translators t_tokens, t_lextables, t_unicode, t_grammar, t_grammarcert, t_foldkinds (tree part)",
    "hook H3 logs every mutating SymbolMap call and IndexCtx::error with its range (cfg tablegen_lsp_verif)",
    "modelled, not verified: iset::IntervalMap, id_arena, HashMap/IndexMap (association lists)",
    "UTF-8 length of a scalar value: TG.Model.Chars.utf8_len (compared against Rust's String by the byte lengths symdump reports)",
    "extraction (ExtrOcamlBasic), symmap_driver.ml, harness symdump.rs, lib/symlib.py, lib/symgen.py",
]


def gen_inputs(ctx):
    g = symgen.Gen(ctx.rng)
    der = L.derived_workspaces(g, ctx.rng, 260 if ctx.quick else 1000, 2, 3, 5 if ctx.quick else 8)
    wss, kinds = [], []
    for kind, files, root in der:
        wss.append(L.mk_ws(files, root, ctx.rng, hover=False, completion=False, hints="sample"))
        kinds.append(kind)
    # texts that end inside a literal / comment / stray token with a non-ASCII last character, and character-level cuts
    g2 = symgen.Gen(ctx.rng)
    for _ in range(120 if ctx.quick else 700):
        files, root = g2.workspace()
        rt = [t for p, t in files if p == root][0]
        others = [f for f in files if f[0] != root]
        wss.append(L.mk_ws(others + [[root, symgen.eof_nonascii(rt, ctx.rng)]], root, ctx.rng, hover=False, completion=False))
        kinds.append("eof-nonascii")
        for t in symgen.char_prefixes(symgen.inject_nonascii(rt, ctx.rng), ctx.rng, 2):
            wss.append(L.mk_ws(others + [[root, t]], root, ctx.rng, hover=False, completion=False))
            kinds.append("char-prefix")
    # re-edit family: analyse, then set_file_content ONLY with the same tokens and different trivia, query again (symdump "reedit")
    for files, root, reedit in symgen.reedit_cases(g2, ctx.rng, 40 if ctx.quick else 300):
        w = L.mk_ws(files, root, ctx.rng, hover=False, completion=False)
        w["reedit"] = reedit
        wss.append(w)
        kinds.append("re-edit")
    for t in symgen.doc_space_cases(ctx.rng, 10 if ctx.quick else 60):
        wss.append(L.mk_ws([["/w/main.td", t]], "/w/main.td", ctx.rng, hover=True, completion=False))
        kinds.append("doc-space")
    # hand-written seeds: multi-byte characters directly before / after / between identifiers
    seeds = [
        "class Ä; class B : A;\n// é\r\nclass A { int x = 1; }\r\ndef d : A { let x = 2; } // 漢字",
        "/* \U0001F600 */class A<int a> { int x = a; }\r\n/*é*/def/*é*/d/*é*/:/*é*/A<1>/*é*/;",
        "class A { string s = \"é漢\U0001F600\"; int é = s; }\ndef d : A { let s = \"ß\"; }",
        "include \"é.td\"\r\nclass A;\r\n\r\nclass B : A {\r\n  int x;\r\n}\r\n",
        "﻿class A;\nclass B : A;",
        "\ufeff/*\u00e9*/class Base; class D : Base { int x = 1; }\n//\u00e9\r\ndef X : D { let x = 2; }",
        "\ufeff// \u6f22\u5b57\r\nclass A<int a> { int f = a; }\r\ndef d : A<1>;",
        "class A { string s = \"caf\u00e9",
        "class A; /* \u6f22",
        "class A; class B : A; def d : B;",
    ]
    for s in seeds:
        wss.append(L.mk_ws([["/w/main.td", s], ["/w/é.td", "class Z; // ü\r\n"]], "/w/main.td", ctx.rng, hover=False, completion=False))
        kinds.append("seed")
    return wss, kinds


def corpus_inputs(ctx):
    if ctx.quick:
        return []
    os.environ["INCLUDE_DIR"] = "/c"
    return [L.mk_ws(files, root, None, hover=False, completion=False, hints="full")
            for files, root in L.corpus_workspaces(ctx.rng, 20, 21000)]


def run(ctx):
    bindir = vlib.build_harness(True, bins=["symdump"])
    fails = vlib.proof_step(ctx, "TG.Props.C17", THEOREMS, ["props/C17.vo"], TRUSTED, translators=TRANSLATORS)
    L.source_tie(ctx, fails)
    # builder bridge: every range of every answer of the complete analysis (all nine queries) is valid
    L.pipeline_all(ctx, fails)
    exe = vlib.build_model("symmap")
    wss, kinds = gen_inputs(ctx)
    res = L.evaluate(bindir, exe, wss)
    cws = corpus_inputs(ctx)
    cres = []
    if cws:
        # the model's boundary test is linear in the text per range: for the (ASCII) corpus only the three smallest roots get the texts
        cws.sort(key=lambda w: sum(len(t) for _p, t in w['files']))
        cres = L.evaluate(bindir, exe, cws[:3], timeout=600) + L.evaluate(bindir, exe, cws[3:], timeout=600, with_text=False)
        os.environ.pop("INCLUDE_DIR", None)
    found = False
    n_ranges = skipped = n_nonascii_ranges = 0
    nontrivial = set()
    by_kind = {}
    bad_inputs, ties, samples = [], [], []
    for e, kind in list(zip(res, kinds)) + [(e, "corpus") for e in cres]:
        by_kind[kind] = by_kind.get(kind, 0) + 1
        if e["c03"] is not None:
            skipped += 1
            continue
        n_ranges += e["nranges"]
        texts = dict((p, t) for p, t in e["ws"]["files"])
        na = any(ord(c) > 127 for p in e["real"]["workspace"] for c in texts.get(p, ""))
        if na and e["nranges"] >= 5:
            nontrivial.add(vlib.sha(json.dumps(e["ws"]["files"])))
            n_nonascii_ranges += e["nranges"]
        if e["c17"]:
            bad_inputs.append((e, kind))
            continue
        m = e["model"]
        if m is None or "model_crash" in m:
            ties.append((e, "model did not run: %s" % (m or {}).get("model_crash")))
        elif e["diffs"]:
            ties.append((e, "correspondence: " + e["diffs"][0]))
        elif m.get("ops_ranges_wf") is False:
            i = m["ranges_bad"][0]
            ties.append((e, "hypothesis ops_ranges_wf fails on the real op log at op %d: %s" % (i, e["real"]["oplog"][i])))
        if len(samples) < 3 and na and e["nranges"] >= 8 and len(json.dumps(e["ws"]["files"])) < 600:
            samples.append({"files": e["ws"]["files"], "root": e["ws"]["root"], "kind": kind, "ranges_checked": e["nranges"]})
    bad_inputs.sort(key=lambda t: len(json.dumps(t[0]["ws"]["files"])))
    for e, kind in bad_inputs[:3]:
        what, rng_, why = e["c17"][0]
        files = e["ws"]["files"]
        if kind != "corpus":
            def pred(fs, root=e["ws"]["root"], hr=e["ws"].get("hint_ranges")):
                w = L.mk_ws(fs, root, None, hover=False, completion=False, hints="full")
                r = L.run_symdump(bindir, [w], timeout=30)[0]
                return L.c03_problem(r) is None and bool(L.c17_oracle(w, r)[0])
            if pred(files):
                files = L.shrink_files(files, e["ws"]["root"], pred, 15)
        ctx.violation("C17 violated on the real analysis: %s %s: %s" % (what, json.dumps(rng_), why),
                      {"property": "C17", "files": files, "root": e["ws"]["root"], "original_files": e["ws"]["files"],
                       "hint_ranges": e["ws"].get("hint_ranges"), "reedit": e["ws"].get("reedit"), "what": what, "range": rng_, "why": why,
                       "all": [list(x) for x in e["c17"][:10]], "seed": ctx.seed, "kind": kind,
                       "violating_workspaces_in_this_run": len(bad_inputs)})
        found = True
    if ties and not found:
        e, why = min(ties, key=lambda t: len(json.dumps(t[0]["ws"]["files"])))
        fails.append({"kind": "correspondence", "file": why})
        ctx.violation("C17 tie broken (no violating input found by the oracle): " + why,
                      {"property": "C17", "broken": why, "files": e["ws"]["files"], "root": e["ws"]["root"],
                       "disagreeing_workspaces": len(ties), "seed": ctx.seed}, no_failing_input=True)
        found = True
    ctx.cov.update({
        "evaluations": n_ranges,
        "distinct_nontrivial": len(nontrivial),
        "rule": "every range of every result (diagnostics, index diagnostics, document symbols + children, folding ranges, links + targets, "
                "inlay-hint positions for the whole file / random sub-ranges / empty ranges, definition and references at every offset, "
                "interval-map keys, define_loc / reference_locs) of workspaces from lib/symgen and their prefixes / token edits, each with "
                "non-ASCII (2-, 3-, 4-byte, NBSP, U+2028, BOM) text and CRLF injected in comments, strings and as stray characters; "
                "thorough adds LLVM-14 corpus roots. non-trivial = distinct workspace with non-ASCII text in a workspace file and >= 5 ranges",
        "workspaces": len(wss) + len(cws),
        "workspaces_by_kind": by_kind,
        "ranges_in_nonascii_workspaces": n_nonascii_ranges,
        "skipped_analysis_failed": skipped,
        "traces_validated_against_impl": sum(1 for e in res + cres if e["model"] is not None and not e["diffs"] and "model_crash" not in e["model"]),
        "correspondence_disagreements": len(ties),
        "violating_workspaces": len(bad_inputs),
        "hypotheses_checked_on_real_logs": ["ops_ranges_wf (every op range: workspace file, lo <= hi, UTF-8 boundaries of the real text)"],
        "samples": samples,
        "exhaustive": False,
    })
    ctx.level = "proof"
    ctx.assumptions += ["partial proof: symbol-map-derived ranges proved at op level, tree-derived ranges by oracle only"]
    vlib.broken_ties_to_violations(ctx, fails, found)


def replay(ctx, path):
    obj = json.load(open(path))
    bindir = vlib.build_harness(True, bins=["symdump"])
    exe = vlib.build_model("symmap")
    w = L.mk_ws(obj["files"], obj["root"], None, hover=False, completion=False, hints=obj.get("hint_ranges") or "full")
    if obj.get("reedit"):
        w["reedit"] = obj["reedit"]      # second text, set with set_file_content only
    e = L.evaluate(bindir, exe, [w])[0]
    print("implementation: analysis problem:", e["c03"])
    if e["c03"] is None:
        r = e["real"]
        print("implementation: lengths:", r["len"], "workspace:", r["workspace"])
        print("implementation: diagnostics:", json.dumps(r["diagnostics"])[:1500])
        print("implementation: folding:", json.dumps(r["folding"])[:800], "links:", json.dumps(r["links"])[:800])
        print("implementation: hints:", json.dumps(r["hints"])[:800])
        m = e["model"] or {}
        print("model: run=%s ops_ranges_wf=%s ranges_bad=%s" % (m.get("run"), m.get("ops_ranges_wf"), m.get("ranges_bad")))
        print("correspondence differences:", e["diffs"][:5])
        print("oracle (every range):", json.dumps(e["c17"][:10]), "of", e["nranges"], "ranges")
    bad = bool(e["c17"]) or bool(e["diffs"]) or (e["model"] or {}).get("ops_ranges_wf") is False
    print("REPRODUCED" if bad else "not reproduced")
    return 1 if bad else 0
