"""C14 Lexical conformance with the TableGen language reference.

Statement (properties.jsonl): any sequence of valid TableGen tokens - identifiers (including digit-leading ones),
decimal / hexadecimal / binary integers, string literals with escapes, code fragments, variable names, every
keyword and bang operator, punctuation - separated by white space, line comments or (nested) block comments is
split into exactly those tokens with exactly those kinds and boundaries, and no lexical error is reported.

What one run does (DESIGN 1.4):
1. harness `lexdump` is built against the current tree (observes syntax::lexer::Lexer through
   TokenStream::{eat, cursor, take_error});
2. the Coq cone props/C14.vo is re-checked (theorems over ALL lists of valid pieces; Print Assumptions; scan);
3. GENERATOR of spec-level token instances, per class over its full regular language with the boundary cases,
   sequences of 1..12 pieces joined (i) by well-formed separator gaps, (ii) directly wherever the side condition
   `not_merged` of the theorem allows, (iii) alone / at the end of input.  SPEC TIES through the extraction unit
   `lexspec` (coq/model/LexSpec.v): the hand-written spelling tables of lib/lexreflib.py equal the Coq lists;
   every generated instance has valid_piece_d = 1, every negative 0; on every generated sequence the Python
   adjacency rule agrees with the extracted not_merged / separated; on exhaustive small words of every class the
   Python membership test agrees with spec_tok / spec_sep / spec_directive in both polarities;
4. ORACLE on the real code: for every generated sequence with valid pieces and not_merged, lexdump(render) is
   exactly the pieces (kind, byte boundaries) followed by Eof, without an Error token, and equals the output of
   the independent reference lexer (lib/lexreflib.py, written from the Programmer's Reference).  The reference
   lexer is also run on the 39 LLVM-14 .td files, on code point mutations of valid sequences, on random and on
   exhaustive small texts: whenever it says "valid token sequence" the real lexer must agree exactly (kinds,
   boundaries, no Error); when it says invalid, nothing is demanded;
5. CORRESPONDENCE model vs real: `syntax_run lex` (extracted Lexer.v) against lexdump on ALL inputs (valid,
   invalid, mutated, raw): kinds, byte lengths, error messages;
6. verdict: oracle failures -> VIOLATION with the minimised input (class `radix-prefix-identifier`, D26, goes
   through known_findings.txt when the lead lists it); broken ties -> no-failing-input-found.

Development switch (default off, recorded in evidence): C14_SKIP_PROOF=1 skips step 2 (translators still run;
obligations are then reported as NOT discharged)."""
import glob
import itertools
import json
import os
import re
import subprocess
import sys
import time
from concurrent.futures import ProcessPoolExecutor

sys.path.insert(0, os.path.join(os.path.dirname(os.path.dirname(os.path.abspath(__file__))), "lib"))
import vlib
import treeio
import lexreflib as L

THEOREMS = ["C14_conforms", "C14_conforms_directives", "C14_munch", "C14_unambiguous", "C14_separated",
            "C14_nested_comments", "C14_follow_necessary", "C14_side_condition_exact", "C14_unicode_tables",
            "C14_model_is_source", "C14_next_token_is_source", "C14_conforms_source"]
KEY_D26 = "radix-prefix-identifier"
TRUSTED = [
    "Coq 8.16.1 kernel (coqc, vm_compute where the proofs use it); Print Assumptions of every theorem is checked against the allow-list (target: closed under the global context)",
    "statement of the token language in coq/model/LexSpec.v (spec_tok / spec_sep / follow_ok / not_merged), read against the LLVM TableGen Programmer's Reference, section Lexical Analysis; tied to the Python reference lexer and generator by the spec ties of this check",
    "hand-written model of crates/syntax/src/lexer.rs in coq/model/Lexer.v with the generated tables (t_tokens, t_lextables, t_unicode), tied to the code by the correspondence run of this check (kinds, byte lengths, error messages on every input)",
    "modelled contracts of unscanny::Scanner (eat, eat_if, eat_while, eat_until, at, peek, jump, from/get), char::is_whitespace / is_alphabetic (generated Unicode tables), u64::from_str_radix / str::parse::<u64|i64>",
    "Coq extraction (ExtrOcamlBasic only) and the OCaml drivers coq/extract/syntax_driver.ml, coq/extract/lexspec_driver.ml",
    "Rust harness harness/src/bin/lexdump.rs, this Python driver, lib/lexreflib.py (reference lexer written from the language reference)",
]
WORKERS = max(1, min(vlib.NCPU, 8))

# ====================================================================== running the three observers


def _unlimit_stack():
    import resource
    try:
        hard = resource.getrlimit(resource.RLIMIT_STACK)[1]
        resource.setrlimit(resource.RLIMIT_STACK, (hard, hard))
    except Exception:
        pass


def run_lexdump(bindir, texts, timeout=900):
    p = subprocess.run([os.path.join(bindir, "lexdump")], input=json.dumps(texts), stdout=subprocess.PIPE,
                       stderr=subprocess.PIPE, text=True, timeout=timeout)
    if p.returncode != 0:
        raise RuntimeError("lexdump failed: " + p.stderr[-2000:])
    out = json.loads(p.stdout)
    if len(out) != len(texts):
        raise RuntimeError("lexdump: %d results for %d texts" % (len(out), len(texts)))
    return out


def run_lines(exe, cmd, lines, timeout=900):
    """a *_run binary: one case per line in, one result line per case out (deep recursion: unlimited stack)"""
    if not lines:
        return []
    p = subprocess.run([exe, cmd], input="".join(l + "\n" for l in lines), stdout=subprocess.PIPE,
                       stderr=subprocess.PIPE, text=True, timeout=timeout, preexec_fn=_unlimit_stack)
    out = p.stdout.split("\n")
    if out and out[-1] == "":
        out.pop()
    if p.returncode != 0 or len(out) != len(lines):
        if len(lines) == 1:
            return ["MODEL-CRASH"]
        mid = len(lines) // 2
        return run_lines(exe, cmd, lines[:mid], timeout) + run_lines(exe, cmd, lines[mid:], timeout)
    return out


def text_line(s):
    return " ".join(str(ord(c)) for c in s)


def piece_line(pieces, tkidx):
    return " ".join("%d:%s" % (tkidx[k], ",".join(str(ord(c)) for c in w)) for k, w in pieces)


def esc(s):
    return s.encode("unicode_escape").decode("ascii")


def real_line(r, tkidx):
    """lexdump result -> the token words the model driver prints (kindindex:bytelen:err)"""
    if "tokens" not in r:
        return ["PANIC"]
    return ["%d:%d:%s" % (tkidx[t[0]], t[2] - t[1], "-" if t[3] is None else t[3].replace(" ", "_"))
            for t in r["tokens"]]


def expected_of_pieces(pieces):
    out, o = [], 0
    for k, w in pieces:
        n = len(w.encode("utf-8"))
        out.append([k, o, o + n])
        o += n
    out.append(["Eof", o, o])
    return out


def observed_ok(r, expected):
    """the real lexer's observation is exactly `expected` and carries no error"""
    if "tokens" not in r:
        return False
    toks = r["tokens"]
    if len(toks) != len(expected):
        return False
    for t, e in zip(toks, expected):
        if t[0] != e[0] or t[1] != e[1] or t[2] != e[2] or t[3] is not None or t[0] == "Error":
            return False
    return True


def first_deviation(r, expected):
    toks = r.get("tokens") or []
    for i, e in enumerate(expected):
        if i >= len(toks):
            return i
        t = toks[i]
        if t[0] != e[0] or t[1] != e[1] or t[2] != e[2] or t[3] is not None:
            return i
    return len(expected)


def kind_group(k):
    return "keyword" if k in L.KEYWORD_KINDS else "bang-operator" if k in L.BANG_KINDS else k


def classify_oracle(text, r, expected):
    """(key, signature): key = KEY_D26 when the first deviating piece is an identifier instance that starts
    with 0b / 0x (by the specification such an identifier has no digit of that base after the prefix)"""
    i = first_deviation(r, expected)
    tb = text.encode("utf-8")
    if i < len(expected):
        e = expected[i]
        lexeme = tb[e[1]:e[2]].decode("utf-8", "replace")
        toks = r.get("tokens") or []
        obs = toks[i] if i < len(toks) else ["<missing>", 0, 0, None]
        if "tokens" not in r:
            obs = ["<panic>", 0, 0, None]
        if e[0] == "Id" and lexeme[:2] in ("0b", "0x"):
            return KEY_D26, "Id(0b/0x...)->%s/%s" % (obs[0], obs[3])
        same_span = (obs[1], obs[2]) == (e[1], e[2])
        return None, "%s->%s%s%s" % (kind_group(e[0]), kind_group(obs[0]), "" if same_span else "[other boundaries]",
                                      "" if obs[3] is None else "/" + obs[3])
    return None, "extra-tokens"


RADIX_ID = re.compile(r"0b(?![01])|0x(?![0-9a-fA-F])")


def classify_corr(text, real_words, model_words):
    """input class of a model/implementation disagreement: what stands at the first disagreeing token"""
    off = 0
    for a, b in itertools.zip_longest(real_words, model_words):
        if a != b or a.count(":") < 2:
            break
        off += int(a.split(":")[1])
    rest = text.encode("utf-8")[off:].decode("utf-8", "replace")
    if RADIX_ID.match(rest):
        return KEY_D26
    return "other"


# ====================================================================== worker

def process_chunk(args):
    """cases: list of (family, text, pieces|None, demand).  Returns statistics and bounded failure lists."""
    bindir, syn_exe, spec_exe, tkidx, cases = args
    texts = [c[1] for c in cases]
    real = run_lexdump(bindir, texts)
    model = run_lines(syn_exe, "lex", [text_line(t) for t in texts])
    with_pieces = [i for i, c in enumerate(cases) if c[2] is not None]
    spec = run_lines(spec_exe, "pieces", [piece_line(cases[i][2], tkidx) for i in with_pieces])
    spec_of = dict(zip(with_pieces, spec))
    st = {"texts": 0, "demanded_sequences": 0, "reference_valid_texts": 0, "reference_invalid_texts": 0,
          "oracle_evaluations": 0, "tokens_checked": 0, "correspondence_texts": 0, "spec_tie_sequences": 0,
          "spec_tie_pieces": 0, "spec_not_merged_true": 0, "spec_not_merged_false": 0, "spec_separated_true": 0,
          "separated_implies_not_merged": 0, "real_error_tokens_on_reference_invalid": 0,
          "sequences_in_known_class_d26": 0}
    oracle_fail, corr_fail, tie_fail = [], [], []
    n_oracle_fail, n_corr_fail, keys = 0, 0, {}
    for i, (family, text, pieces, demand) in enumerate(cases):
        st["texts"] += 1
        r = real[i]
        ref = L.ref_lex_bytes(text)
        # ---- spec ties on the piece list
        if pieces is not None:
            line = spec_of[i]
            py_valid = "".join("1" if L.is_instance(k, w) else "0" for k, w in pieces) or "-"
            py_nm, py_sep = L.not_merged(pieces), L.separated(pieces)
            py_outside = not any(k == "Id" and w[:2] in ("0b", "0x") for k, w in pieces)
            want = "%s %d %d %d" % (py_valid, py_nm, py_sep, py_outside)
            st["spec_tie_sequences"] += 1
            st["spec_tie_pieces"] += len(pieces)
            fl = line.split(" ")
            got = " ".join(fl[:3] + fl[4:5])
            if not py_outside:
                st["sequences_in_known_class_d26"] += 1
            if got != want:
                if len(tie_fail) < 10:
                    tie_fail.append({"tie": "coq-spec-vs-python (valid_piece_d bits, not_merged, separated, outside_known)",
                                     "pieces": [[k, esc(w)] for k, w in pieces], "coq": line, "python": want})
            else:
                st["spec_not_merged_true" if py_nm else "spec_not_merged_false"] += 1
                if py_sep:
                    st["spec_separated_true"] += 1
                    if py_nm:
                        st["separated_implies_not_merged"] += 1
            all_valid = "0" not in py_valid
            # converse (C14_side_condition_exact on the real code): valid pieces, MERGED, none of the coarse cases:
            # the real lexer must NOT return the piece list
            if all_valid and not py_nm and len(fl) >= 6 and fl[5] == "1":
                st["converse_checked"] = st.get("converse_checked", 0) + 1
                if observed_ok(r, expected_of_pieces(pieces)) and len(tie_fail) < 10:
                    tie_fail.append({"tie": "side condition not necessary on the real lexer (C14_side_condition_exact): merged pieces were returned unmerged",
                                     "pieces": [[k, esc(w)] for k, w in pieces]})
            if demand is None:
                demand = all_valid and py_nm
            elif demand and not (all_valid and py_nm):
                if len(tie_fail) < 10:
                    tie_fail.append({"tie": "generator produced a sequence outside the theorem's hypothesis",
                                     "pieces": [[k, esc(w)] for k, w in pieces], "python": want})
                demand = False
        # ---- oracle
        expected = None
        if pieces is not None and demand:
            expected = expected_of_pieces(pieces)
            st["demanded_sequences"] += 1
            if ref != expected and len(tie_fail) < 10:
                tie_fail.append({"tie": "reference lexer vs generated sequence (the reference lexer must split a demanded sequence into its pieces)",
                                 "pieces": [[k, esc(w)] for k, w in pieces], "reference": ref})
        elif ref is not None:
            expected = ref
        if ref is not None:
            st["reference_valid_texts"] += 1
        else:
            st["reference_invalid_texts"] += 1
            if any(t[0] == "Error" for t in r.get("tokens", [])):
                st["real_error_tokens_on_reference_invalid"] += 1
        if expected is not None:
            st["oracle_evaluations"] += 1
            st["tokens_checked"] += len(expected)
            if not observed_ok(r, expected):
                n_oracle_fail += 1
                key, sig = classify_oracle(text, r, expected)
                kk = key or ("other:" + sig)
                keys[kk] = keys.get(kk, 0) + 1
                if keys[kk] <= 6 and len(oracle_fail) < 60:
                    oracle_fail.append({"family": family, "text": text, "pieces": pieces, "expected": expected,
                                        "observed": r.get("tokens", r), "reference": ref, "key": key, "sig": sig,
                                        "model": model[i]})
        # ---- correspondence
        st["correspondence_texts"] += 1
        rw, mw = real_line(r, tkidx), model[i].split(" ") if model[i] else []
        if rw != mw:
            n_corr_fail += 1
            cls = classify_corr(text, rw, mw)
            keys["corr:" + cls] = keys.get("corr:" + cls, 0) + 1
            if keys["corr:" + cls] <= 5 and len(corr_fail) < 40:
                corr_fail.append({"family": family, "text": text, "class": cls, "real": " ".join(rw), "model": model[i]})
    return st, oracle_fail, corr_fail, tie_fail, n_oracle_fail, n_corr_fail, keys


# ====================================================================== generator of spec-level instances

ODD = ["\u00e9", "\u20ac", "\U0001F600", "\u00a0", "\u2028", "\u0085", "\u000b", "\ufeff", "\u0416", "\u3000"]
LOWER = "abcdefghijklmnopqrstuvwxyz"
UALPHA = LOWER + LOWER.upper() + "_"
DIGITS = "0123456789"
IDCH = UALPHA + DIGITS
PRINTABLE = "".join(chr(c) for c in range(32, 127))

ID_BOUNDARY = ["a", "_", "Z", "x1", "_0", "__", "a" * 200, "A1_" * 40, "4x", "0_foo", "00x1", "9_", "0b", "0x", "0xg",
               "0b2", "0b_", "0x_1", "0bz", "0xG", "0bb", "0xx", "0X1", "0B1", "00b1", "1x1", "1b1", "12x3", "1e5",
               "007a", "0_", "0a", "0o7", "classy", "def0", "i", "Class", "IF", "In", "defmm", "de", "bitss",
               "_class", "class_", "truee", "True", "FALSE", "x0b1", "x0x1", "b0b1", "E", "e10",
               "99999999999999999999999x", "18446744073709551616_"]
DEC_BOUNDARY = ["0", "00", "007", "+0", "-0", "+00", "-00", "1", "9", "42", "+42", "-42", "9223372036854775807",
                "9223372036854775808", "18446744073709551615", "+18446744073709551615", "+9223372036854775808",
                "-9223372036854775808", "-9223372036854775807", "-1", "0000000000000000000000018446744073709551615",
                "-000009223372036854775808", "+00000000000000000000000000000001", "10000000000000000000"]
DEC_NEG = ["18446744073709551616", "+18446744073709551616", "-9223372036854775809", "99999999999999999999999",
           "-18446744073709551615", "28446744073709551615", "-9999999999999999999", "+", "-", "+-1", "1+", "1_", "١"]
HEX_BOUNDARY = ["0x0", "0x1", "0xff", "0xFF", "0xaBcDeF0123456789", "0xffffffffffffffff", "0xFFFFFFFFFFFFFFFF",
                "0x0000000000000000000001", "0x00000000ffffffffffffffff", "0x8000000000000000", "0xdeadBEEF"]
HEX_NEG = ["0x10000000000000000", "0x1ffffffffffffffff", "0x", "0xg", "0X1", "0x1g", "x1", "00x1", "-0x1", "+0x1"]
BIN_BOUNDARY = ["0b0", "0b1", "0b01", "0b10", "0b" + "1" * 64, "0b0" + "1" * 64, "0b" + "0" * 80 + "1", "0b" + "10" * 32]
BIN_NEG = ["0b" + "1" * 65, "0b1" + "0" * 64, "0b", "0b2", "0B1", "0b12", "b1", "00b1", "-0b1"]
STR_BOUNDARY = ['""', '"a"', '"\\\\"', '"\\\'"', '"\\""', '"\\t"', '"\\n"', '"x\\\\"', '"\\\\\\\\"', '"a\\\\\\"b"',
                '"\\\\\\""', '"\\"\\\\"', '"\\n\\\\"', '"\u00e9\u20ac\U0001F600"', '"a\tb"', '"// not a comment"',
                '"/* not a comment"', '"*/"', '"}]"', '"[{"', '"\'"', '" "', '"\\\\n"', '"\\\\\\n"', '"a\\\\"',
                '"\u2028"', '"\u000b\u000c"', '"!add #define $x 0x"', '"' + "ab\\\\" * 30 + '"']
STR_NEG = ['"abc', '"', '"\\"', '"a\\qb"', '"a\nb"', '"a\rb"', '"a"b"', '"\\', '"\\\\\\"', "'a'", '"a\\0"', '"\\x41"',
           '"a\\\nb"', '"\\r"']
CODE_BOUNDARY = ["[{}]", "[{ }]", "[{ } ]}]", "[{}}]", "[{ ]}]", "[{[{}]", "[{\n x \n}]", '[{ "}]', "[{ /* }]",
                 "[{ // }]", "[{\u00e9\u20ac}]", "[{]}]", "[{{}]", "[{ return [{ x; }]", "[{}}}}]", "[{ ] } ] }]",
                 "[{\r\n}]", "[{ \\}]", "[{ '}]"]
CODE_NEG = ["[{", "[{ }", "[{}]}]", "[{ } ]", "[{}", "[{]", "[ {}]", "[{}] ", "{}]"]
VAR_BOUNDARY = ["$a", "$_", "$A1_", "$class", "$def", "$x0b1", "$_0", "$" + "v" * 120, "$Z", "$a_b_9"]
VAR_NEG = ["$", "$1", "$1a", "$$a", "$ a", "a$", "$\u00e9", "$-"]
BANG_NEG = ["!log2", "!foo", "!", "!Add", "!ADD", "!addx", "!con1", "! add", "!conds", "!logtw", "!getdagArg"]
PUNCT_NEG = [("DotDotDot", ".."), ("DotDotDot", "...."), ("Dot", ".."), ("Paste", "##"), ("Minus", "--"),
             ("LSquare", "[{"), ("Colon", "::"), ("Equal", "=="), ("Less", "<="), ("Paste", "#define")]
WS_BOUNDARY = [" ", "\t", "\n", "\r", "\f", "\r\n", "\n\r", " \t\n\r\f", "\f\f", "\n\n\n", "    ", "\t \t"]
WS_NEG = ["\u000b", "\u00a0", "\u2028", " \u000b", "\u3000", "\u0085", " a", "\ufeff"]
LINE_BOUNDARY = ["//", "// x", "///", "////", "///*", "// */", "// /* */", '// "', "// \u00e9\u20ac", "//\t\f\u000b",
                 "//\u2028x", "// [{ }] !add $x 0b", "//#define X"]
LINE_NEG = ["/", "/ /", "//\n", "// a\nb", "//\r"]
BLOCK_BOUNDARY = ["/**/", "/* */", "/***/", "/****/", "/*/ */", "/*/**/*/", "/* /* */ */", "/* a /* b */ c */",
                  "/*/*/**/*/*/", "/* * / */", "/*\n*/", "/*\r\n\f*/", "/*\u00e9\U0001F600*/", "/* // */", '/* " */',
                  "/* [{ */", "/* }] */", "/* **/", "/*/* **/ **/", "/*// */", "/* /*/ */ */",
                  "/*/*/*/*/*/*/**/*/*/*/*/*/*/", "/* /* /* /* /* /* /* x */ */ */ */ */ */ */", "/** doc **/",
                  "/*/ /* / */ /*/ */ */"]
BLOCK_NEG = ["/*", "/*/", "/* /* */", "/* */ */", "/*/ */ */", "/**//**/", "/*/*/", "/* *", "/* /", "/ * */", "/**/ ",
             "/*/**/", "/*/*/*/", "/*//*/"]
BLOCK_CHARS = list("**//  a\n\"[{}]\\#!$0\r") + ["\u00e9", "\U0001F600", "\u2028"]


def cls_of_ident(w):
    if w[:2] in ("0b", "0x"):
        return "id-radix-prefix"
    return "id-digit-leading" if w[0] in DIGITS else "id"


class Gen:
    def __init__(self, rng):
        self.rng = rng
        self.count = {}          # class -> number of generated instances
        self.kw = sorted(L.KEYWORDS)
        self.bang = sorted(L.BANGS)
        self.punct = sorted(L.PUNCTS)
        self.kw_derived = []
        for k in self.kw:
            for w in (k[:-1], k + "s", k + "0", k + "_", "_" + k, k.upper(), k.capitalize(), k + k, "0" + k):
                if w and L.is_instance("Id", w):
                    self.kw_derived.append(w)

    def _note(self, p):
        self.count[p[2]] = self.count.get(p[2], 0) + 1
        return p

    # ---- token classes
    def ident(self):
        rng = self.rng
        while True:
            r = rng.random()
            if r < 0.22:
                w = rng.choice(ID_BOUNDARY)
            elif r < 0.34:
                w = rng.choice(self.kw_derived)
            else:
                pre = "".join(rng.choice(DIGITS) for _ in range(rng.choice([0, 0, 0, 0, 1, 1, 2, 3])))
                n = rng.choice([0, 0, 1, 1, 2, 3, 5, 8, 13, 40])
                alphabet = IDCH if rng.random() < 0.7 else "01bxg_fF9"
                w = pre + rng.choice(UALPHA if rng.random() < 0.7 else "bx_gZ") + "".join(rng.choice(alphabet) for _ in range(n))
            if L.is_instance("Id", w):
                return self._note(("Id", w, cls_of_ident(w)))

    def dec(self):
        rng = self.rng
        while True:
            if rng.random() < 0.4:
                w = rng.choice(DEC_BOUNDARY)
            else:
                sign = rng.choice(["", "", "", "+", "-"])
                n = rng.choice([1, 1, 2, 3, 5, 10, 18, 19, 20])
                w = sign + "0" * rng.choice([0, 0, 0, 1, 3]) + "".join(rng.choice(DIGITS) for _ in range(n))
            if L.is_instance("IntVal", w):
                return self._note(("IntVal", w, "dec-signed" if w[0] in "+-" else "dec"))

    def hexa(self):
        rng = self.rng
        while True:
            if rng.random() < 0.35:
                w = rng.choice(HEX_BOUNDARY)
            else:
                n = rng.choice([1, 1, 2, 4, 8, 15, 16])
                w = "0x" + "0" * rng.choice([0, 0, 0, 2, 9]) + "".join(rng.choice("0123456789abcdefABCDEF") for _ in range(n))
            if L.is_instance("IntVal", w):
                return self._note(("IntVal", w, "hex"))

    def bina(self):
        rng = self.rng
        while True:
            if rng.random() < 0.35:
                w = rng.choice(BIN_BOUNDARY)
            else:
                n = rng.choice([1, 1, 2, 4, 8, 32, 63, 64])
                w = "0b" + "0" * rng.choice([0, 0, 0, 2, 9]) + "".join(rng.choice("01") for _ in range(n))
            if L.is_instance("BinaryIntVal", w):
                return self._note(("BinaryIntVal", w, "bin"))

    def string(self):
        rng = self.rng
        if rng.random() < 0.3:
            return self._note(("StrVal", rng.choice(STR_BOUNDARY), "str"))
        parts = []
        for _ in range(rng.choice([0, 1, 1, 2, 3, 4, 6, 9])):
            r = rng.random()
            if r < 0.35:
                parts.append("\\" + rng.choice("\\'\"tn"))
            elif r < 0.75:
                c = rng.choice(PRINTABLE)
                parts.append("" if c in '"\\' else c)
            elif r < 0.85:
                parts.append(rng.choice(ODD + ["\t", "\f", "\x00", "\x7f"]))
            else:
                parts.append(rng.choice(["//", "/*", "*/", "}]", "[{", "'", "#", "!add", "$x", "0x"]))
        w = '"' + "".join(parts) + '"'
        assert L.is_instance("StrVal", w), w
        return self._note(("StrVal", w, "str"))

    def code(self):
        rng = self.rng
        while True:
            if rng.random() < 0.3:
                w = rng.choice(CODE_BOUNDARY)
            else:
                alphabet = list("}}]]{[ a\n\"/*;") + ["\u00e9", "\r", "\\", "}}", "] }", "\U0001F600"]
                body = "".join(rng.choice(alphabet) for _ in range(rng.choice([0, 1, 2, 3, 5, 8, 14])))
                w = "[{" + body.replace("}]", "} ]") + "}]"
            if L.is_instance("CodeFragment", w):
                return self._note(("CodeFragment", w, "code"))

    def var(self):
        rng = self.rng
        if rng.random() < 0.3:
            return self._note(("VarName", rng.choice(VAR_BOUNDARY), "var"))
        w = "$" + rng.choice(UALPHA) + "".join(rng.choice(IDCH) for _ in range(rng.choice([0, 0, 1, 2, 4, 9])))
        return self._note(("VarName", w, "var"))

    def keyword(self):
        w = self.rng.choice(self.kw)
        return self._note((L.KEYWORDS[w], w, "keyword"))

    def bangop(self):
        w = self.rng.choice(self.bang)
        return self._note((L.BANGS[w], w, "bang"))

    def punct_tok(self):
        w = self.rng.choice(self.punct)
        return self._note((L.PUNCTS[w], w, "punct:" + w))

    def token(self):
        r = self.rng.random()
        for p, f in ((0.20, self.ident), (0.28, self.dec), (0.33, self.hexa), (0.37, self.bina), (0.47, self.string),
                     (0.53, self.code), (0.58, self.var), (0.68, self.keyword), (0.78, self.bangop)):
            if r < p:
                return f()
        return self.punct_tok()

    # ---- separators
    def ws(self, newline_first=False):
        rng = self.rng
        if not newline_first and rng.random() < 0.3:
            w = rng.choice(WS_BOUNDARY)
        else:
            w = "".join(rng.choice(L.WS_CHARS if rng.random() < 0.5 else " \n") for _ in range(rng.choice([1, 1, 1, 2, 3, 6])))
        if newline_first and w[0] not in "\n\r":
            w = rng.choice("\n\r") + w[1:]
        return self._note(("Whitespace", w, "ws"))

    def line_comment(self):
        rng = self.rng
        if rng.random() < 0.3:
            return self._note(("LineComment", rng.choice(LINE_BOUNDARY), "line-comment"))
        parts = []
        for _ in range(rng.choice([0, 1, 2, 4, 8, 16])):
            r = rng.random()
            if r < 0.65:
                parts.append(rng.choice(PRINTABLE))
            elif r < 0.8:
                parts.append(rng.choice(ODD + ["\t", "\f"]))
            else:
                parts.append(rng.choice(["/*", "*/", "//", '"', "[{", "}]", "#ifdef", "\\"]))
        return self._note(("LineComment", "//" + "".join(parts), "line-comment"))

    def _block_events(self, depth, forced):
        rng = self.rng
        ev = []
        n = rng.choice([0, 0, 1, 2, 3, 5])
        for _ in range(n):
            if depth > 0 and rng.random() < 0.3:
                ev.append(["O"] + self._block_events(depth - 1, False) + ["X"])
            else:
                ev.append([rng.choice(BLOCK_CHARS)])
        if forced and depth > 0:
            ev.insert(rng.randrange(len(ev) + 1), ["O"] + self._block_events(depth - 1, True) + ["X"])
        return [x for e in ev for x in e]

    def block_comment(self, depth=None):
        rng = self.rng
        if depth is None:
            if rng.random() < 0.3:
                return self._note(("BlockComment", rng.choice(BLOCK_BOUNDARY), "block-comment"))
            depth = rng.choice([0, 0, 0, 1, 1, 2, 2, 3, 4, 5, 6])
        ev = ["O"] + self._block_events(depth, True) + ["X"]
        first = {"O": "/", "X": "*"}
        out = []
        for i, e in enumerate(ev):
            if e == "O":
                out.append("/*")
            elif e == "X":
                out.append("*/")
            else:
                out.append(e)
                nxt = first.get(ev[i + 1], ev[i + 1])[0]
                # a plain character must not form a delimiter with the character rendered after it
                if (e == "/" and nxt == "*") or (e == "*" and nxt == "/"):
                    out.append(rng.choice([" ", "x", "\n"]))
        w = "".join(out)
        assert L.is_instance("BlockComment", w), w
        return self._note(("BlockComment", w, "block-comment-depth-%d" % depth))

    def gap(self, at_end):
        """a well-formed non-empty run of separators: no two white-space runs adjacent, a line comment is followed
        by a white-space run that begins with a line end (or by the end of the input)"""
        rng = self.rng
        k = rng.choice([1, 1, 1, 1, 2, 2, 3, 4])
        out = []
        while len(out) < k:
            prev = out[-1][0] if out else None
            if prev == "LineComment":
                out.append(self.ws(newline_first=True))
                continue
            r = rng.random()
            if prev != "Whitespace" and r < 0.5:
                out.append(self.ws())
            elif r < 0.72:
                out.append(self.line_comment())
            else:
                out.append(self.block_comment())
        if out[-1][0] == "LineComment" and not at_end:
            out.append(self.ws(newline_first=True))
        return out

    # ---- sequences
    def sequence(self, p_adjacent):
        rng = self.rng
        limit = rng.randrange(1, 13)
        pieces = []
        if rng.random() < 0.2:
            pieces += self.gap(False)
        first = True
        while len(pieces) < limit:
            t = self.token()
            if not first:
                prev = pieces[-1]
                if prev[0] in L.SEP_KINDS:
                    pass
                elif rng.random() < p_adjacent and L.follow_ok(prev[0], t[1]):
                    pass
                else:
                    pieces += self.gap(False)
            pieces.append(t)
            first = False
            if rng.random() < 0.08 and pieces[-1][0] not in L.SEP_KINDS:
                pieces += self.gap(False)
        if rng.random() < 0.3 and pieces[-1][0] not in L.SEP_KINDS:
            pieces += self.gap(True)
        return pieces

    def any_piece(self):
        r = self.rng.random()
        if r < 0.15:
            return self.ws()
        if r < 0.25:
            return self.line_comment()
        if r < 0.35:
            return self.block_comment()
        return self.token()

    def unchecked_sequence(self):
        """pieces concatenated without looking at the side condition: exercises both verdicts of not_merged"""
        return [self.any_piece() for _ in range(self.rng.randrange(1, 7))]


def pair_classes(g):
    """one generator per adjacency class (for the pair matrix)"""
    cl = {"id": lambda: g.ident(), "dec": lambda: g.dec(), "hex": lambda: g.hexa(), "bin": lambda: g.bina(),
          "str": lambda: g.string(), "code": lambda: g.code(), "var": lambda: g.var(), "keyword": lambda: g.keyword(),
          "bang": lambda: g.bangop(), "ws": lambda: g.ws(), "line-comment": lambda: g.line_comment(),
          "block-comment": lambda: g.block_comment()}
    for w, k in sorted(L.PUNCTS.items()):
        cl["punct:" + w] = (lambda w=w, k=k: g._note((k, w, "punct:" + w)))
    return cl


def pair_class(p):
    c = p[2]
    if c.startswith("id"):
        return "id"
    if c.startswith("dec"):
        return "dec"
    if c.startswith("block-comment"):
        return "block-comment"
    return c


CRITICAL = list("a01xb_+-.\"\\/*[{}]#!$ \n")


def mutate(rng, s):
    cps = list(s)
    for _ in range(rng.choice([1, 1, 2, 3])):
        op = rng.randrange(6)
        pos = rng.randrange(len(cps) + 1)
        if op == 0 and cps:
            del cps[min(pos, len(cps) - 1)]
        elif op == 1:
            cps.insert(pos, rng.choice(CRITICAL + ODD[:5] + list("gfF9eE'tn\r\t\f=")))
        elif op == 2 and cps:
            cps[min(pos, len(cps) - 1)] = rng.choice(CRITICAL + ODD[:3])
        elif op == 3 and len(cps) > 1:
            i = min(pos, len(cps) - 2)
            cps[i], cps[i + 1] = cps[i + 1], cps[i]
        elif op == 4:
            cps = cps[:pos]
        else:
            i = min(pos, max(0, len(cps) - 1))
            j = min(len(cps), i + rng.randrange(1, 4))
            cps[i:i] = cps[i:j]
    return "".join(cps)


def raw_text(rng):
    pool = CRITICAL + ["\u00a0", "\u2028", "\u000b", "\u00e9", "\U0001F600", "\r", "\t", "\f", "'", "n", "t", "g", "9",
                       '"', "[{", "/*", "*/", "}]", "//", "0x", "0b", "...", "!add", "#if", "$", "def"]
    return "".join(rng.choice(pool) for _ in range(rng.choice([1, 2, 3, 5, 8, 13, 20])))


def words_over(alphabet, maxlen):
    for n in range(1, maxlen + 1):
        for t in itertools.product(alphabet, repeat=n):
            yield "".join(t)


# ====================================================================== spec ties that do not need the real code

def table_tie(spec_exe, names):
    """the hand-written spelling tables of lexreflib are the lists of LexSpec.v, and the specification's kind
    indices are those of the current token_kind.rs"""
    bad = []
    kinds = [l.split(" ", 1) for l in subprocess.run([spec_exe, "kinds"], stdout=subprocess.PIPE, text=True, timeout=60).stdout.split("\n") if l]
    if [k[1] for k in kinds] != list(names) or [int(k[0]) for k in kinds] != list(range(len(names))):
        bad.append({"tie": "TokenKind order of the specification vs t_tokens", "coq": kinds[:5], "tokens": list(names)[:5]})
    rows = [l.split(" ") for l in subprocess.run([spec_exe, "tables"], stdout=subprocess.PIPE, text=True, timeout=60).stdout.split("\n") if l]
    coq = {"keywords": {}, "bangs": {}, "puncts": {}, "directives": {}}
    words = []
    for r in rows:
        if r[0] == "word":
            words.append(r[1])
        else:
            coq[r[0]][r[2]] = names[int(r[1])]
    for name, mine in (("keywords", L.KEYWORDS), ("bangs", L.BANGS), ("puncts", L.PUNCTS), ("directives", L.DIRECTIVES)):
        if coq[name] != mine:
            diff = sorted(set(coq[name].items()) ^ set(mine.items()))
            bad.append({"tie": "spelling table %s: LexSpec.v vs lexreflib.py" % name, "differences": diff[:10]})
    if sorted(words) != sorted(L.DIRECTIVE_WORDS):
        bad.append({"tie": "directive_words", "coq": words})
    return bad, sum(len(v) for v in coq.values())


def membership_tie(spec_exe, tkidx, quick):
    """exhaustive small words of every class: Python membership == Coq spec_tok / spec_sep / spec_directive"""
    n3, n4 = (3, 4) if quick else (4, 5)
    fam = [
        (["Id", "IntVal", "BinaryIntVal", "Minus", "Plus", "If", "In"], words_over("0129abxgf_Z+-in", n3)),
        (["StrVal"], words_over('"\\an\n\'q', n4 + 1)),
        (["BlockComment", "LineComment"], words_over("/*a\n", 6 if quick else 8)),
        (["CodeFragment", "LSquare", "LBrace"], words_over("[{}]a", 5 if quick else 7)),
        (["VarName", "Id"], words_over("$a_0", n4)),
        (["Whitespace"], words_over(" \t\n\r\f\u000b\u00a0a", n3)),
        (["Dot", "DotDotDot", "Paste", "Define", "Else"], words_over(".#", 4)),
        (["XCon", "XCond", "XLog2", "XIf", "Id"], ["!con", "!cond", "!conds", "!log2", "!logtwo", "!if", "!iff", "!", "!Con", "con"]),
    ]
    lines, want, meta = [], [], []
    for kinds, ws in fam:
        for w in ws:
            for k in kinds:
                lines.append("%d | %s" % (tkidx[k], text_line(w)))
                inst = L.is_instance(k, w)
                want.append("%d%d%d" % (inst and k not in L.SEP_KINDS and k not in L.DIRECTIVE_KINDS,
                                        inst and k in L.SEP_KINDS, inst and k in L.DIRECTIVE_KINDS))
                meta.append((k, w))
    # every fixed spelling against its own kind and against Id / a neighbour kind
    for tbl in (L.KEYWORDS, L.BANGS, L.PUNCTS, L.DIRECTIVES):
        for w, k in tbl.items():
            for kk, ww in ((k, w), ("Id", w), (k, w.upper()), (k, w + "x"), (k, w[:-1])):
                if ww == "":
                    continue
                lines.append("%d | %s" % (tkidx[kk], text_line(ww)))
                inst = L.is_instance(kk, ww)
                want.append("%d%d%d" % (inst and kk not in L.DIRECTIVE_KINDS, 0, inst and kk in L.DIRECTIVE_KINDS))
                meta.append((kk, ww))
    shards = [list(range(i, len(lines), WORKERS)) for i in range(WORKERS)]
    procs = []
    for sh in shards:
        p = subprocess.Popen([spec_exe, "tok"], stdin=subprocess.PIPE, stdout=subprocess.PIPE, text=True,
                             preexec_fn=_unlimit_stack)
        procs.append((p, sh))
    for p, sh in procs:
        p._input_text = "".join(lines[i] + "\n" for i in sh)
    got = [None] * len(lines)
    import threading
    def feed(p, sh):
        o, _ = p.communicate(p._input_text, timeout=900)
        for i, l in zip(sh, o.split("\n")):
            got[i] = l
    th = [threading.Thread(target=feed, args=a) for a in procs]
    for t in th:
        t.start()
    for t in th:
        t.join()
    bad = []
    pos = 0
    for (k, w), a, b in zip(meta, got, want):
        if b != "000":
            pos += 1
        if a != b and len(bad) < 10:
            bad.append({"tie": "membership: Coq spec_tok/spec_sep/spec_directive vs lexreflib.is_instance",
                        "kind": k, "lexeme": esc(w), "coq": a, "python": b})
    return bad, len(lines), pos, sorted({w for _k, w in meta})


# ====================================================================== optional extra oracle: llvm-tblgen-14

LLVM_TBLGEN = "/usr/bin/llvm-tblgen-14"
LLVM_QUIRK = re.compile(r"[0-9]+(?:x[0-9a-fA-F]|b[01])")


def llvm_acceptance(idents, ints):
    """INFORMATIONAL (never part of the verdict): does llvm-tblgen-14 accept `def <ident>;` with that record
    name, and does it read the integer literals with the same value?  llvm-tblgen's lexer has a heuristic the
    reference grammar does not mention: <digits>x<hexdigit> / <digits>b<bindigit> "is most likely a number", so
    12x3 is lexed as 12 followed by x3; such identifiers are listed as divergent, not as failures."""
    if not os.path.exists(LLVM_TBLGEN):
        return {"available": False}
    import shutil
    import tempfile
    from concurrent.futures import ThreadPoolExecutor
    d = tempfile.mkdtemp(prefix="c14-llvm-", dir=vlib.CACHE)

    def run(i, src):
        f = os.path.join(d, "t%d.td" % i)
        open(f, "w").write(src)
        p = subprocess.run([LLVM_TBLGEN, "-print-records", f], stdout=subprocess.PIPE, stderr=subprocess.STDOUT,
                           text=True, timeout=60)
        return p.stdout
    try:
        with ThreadPoolExecutor(max_workers=WORKERS) as ex:
            outs = list(ex.map(lambda a: run(*a), [(i, "def %s;\n" % w) for i, w in enumerate(idents)]))
            vouts = list(ex.map(lambda a: run(*a), [(1000000 + i, "defvar x = %s;\ndef A { int v = x; }\n" % w)
                                                    for i, w in enumerate(ints)]))
    finally:
        shutil.rmtree(d, ignore_errors=True)
    acc, quirk, rej = 0, [], []
    for w, o in zip(idents, outs):
        if re.search(r"^def %s \{" % re.escape(w), o, re.M):
            acc += 1
        elif LLVM_QUIRK.match(w):
            quirk.append(w)
        else:
            rej.append(w)
    same, other = 0, []
    for w, o in zip(ints, vouts):
        v = int(w[2:], 16) if w.startswith("0x") else int(w[2:], 2) if w.startswith("0b") else int(w)
        v = v - (1 << 64) if v >= (1 << 63) else v
        m = re.search(r"int v = (-?[0-9]+);", o)
        if m and int(m.group(1)) == v:
            same += 1
        else:
            other.append([w, m.group(1) if m else o.strip()[:80]])
    return {"available": True, "identifiers_checked": len(idents), "identifiers_accepted_as_record_name": acc,
            "identifiers_split_by_llvm_number_heuristic": quirk[:20], "identifiers_rejected": rej[:20],
            "integers_checked": len(ints), "integers_same_value": same, "integers_other": other[:20]}


# ====================================================================== the check

def unicode_tie(bindir, spec_exe, rng, quick):
    """The two non-ASCII predicates of the lexer (char::is_whitespace, char::is_alphabetic):
    (1) `unidump` evaluates the Rust std of the build toolchain on ALL scalar values 0..0x10FFFF;
    (2) the tables the Coq proofs were checked against (coq/gen/GenUnicode.v on disk) and the tables inside the
        extracted model (`lexspec_run unitables`) must denote exactly that set (compared on every scalar value);
    (3) the extracted model PREDICATES Chars.is_whitespace / is_alphabetic (`lexspec_run uni`) must agree with the
        std at every range boundary +-1 and on a random sample (quick) / on every scalar value (thorough).
    Returns (tie failures, statistics)."""
    fails, st = [], {}
    try:
        d = json.loads(subprocess.run([os.path.join(bindir, "unidump")], capture_output=True, text=True, timeout=300).stdout)
    except Exception as ex:                                   # noqa: BLE001
        return [{"tie": "unidump failed", "detail": str(ex)[:300]}], st
    N = 0x110000

    def bitmap(rows):
        b = bytearray(N)
        for lo, hi in rows:
            b[lo:hi + 1] = b"\x01" * (hi + 1 - lo)
        return b
    real = {k: bitmap(d[k]) for k in ("whitespace", "alphabetic")}
    st["std_true_counts"] = {k: sum(real[k]) for k in real}
    # (2a) GenUnicode.v on disk
    src = open(os.path.join(vlib.COQ, "gen", "GenUnicode.v")).read()
    for name in ("whitespace", "alphabetic"):
        m = re.search(r"Definition %s_ranges[^\[]*\[(.*?)\]\." % name, src, re.S)
        rows = [(int(a), int(b)) for a, b in re.findall(r"\((\d+),\s*(\d+)\)", m.group(1))] if m else []
        if bitmap(rows) != real[name]:
            fails.append({"tie": "coq/gen/GenUnicode.v %s_ranges != char::is_%s of the toolchain's std over all scalar values" % (name, name),
                          "rows_in_file": len(rows), "rows_in_std": len(d[name])})
    # (2b) tables inside the extracted model
    ext = {"whitespace": [], "alphabetic": []}
    for line in subprocess.run([spec_exe, "unitables"], capture_output=True, text=True, timeout=120).stdout.split("\n"):
        w = line.split()
        if len(w) == 3:
            ext[w[0]].append((int(w[1]), int(w[2])))
    for name in ext:
        if bitmap(ext[name]) != real[name]:
            fails.append({"tie": "extracted table %s_ranges != std over all scalar values" % name})
    # (3) extracted predicates
    pts = set()
    for name in ("whitespace", "alphabetic"):
        for lo, hi in d[name]:
            pts.update(x for x in (lo - 1, lo, lo + 1, hi - 1, hi, hi + 1) if 0 <= x < N)
    pts.update((0, 127, 128, 0xD7FF, 0xE000, 0xFFFF, 0x10000, N - 1))
    if quick:
        pts.update(rng.randrange(N) for _ in range(2500))
        pts = sorted(pts)
    else:
        pts = list(range(N))
    chunks = [pts[i::WORKERS] for i in range(WORKERS)]
    lines = [" ".join(map(str, c)) for c in chunks if c]
    with ProcessPoolExecutor(max_workers=WORKERS) as ex:
        outs = list(ex.map(_uni_worker, [(spec_exe, l) for l in lines]))
    bad = []
    for c, o in zip([c for c in chunks if c], outs):
        bits = o.split()
        if len(bits) != len(c):
            fails.append({"tie": "lexspec_run uni: wrong output length"})
            break
        for x, b in zip(c, bits):
            if (b[0] == "1") != bool(real["whitespace"][x]) or (b[1] == "1") != bool(real["alphabetic"][x]):
                bad.append(x)
    if bad:
        fails.append({"tie": "model predicate Chars.is_whitespace/is_alphabetic != std", "scalar_values": bad[:10], "count": len(bad)})
    st["scalar_values_compared_tables"] = N
    st["scalar_values_compared_predicates"] = len(pts)
    return fails, st


def _uni_worker(a):
    exe, line = a
    return subprocess.run([exe, "uni"], input=line + "\n", capture_output=True, text=True, timeout=1200).stdout


def corpus_files():
    fs = sorted(glob.glob(os.path.join(vlib.VERIF, "corpus", "**", "*.td"), recursive=True))
    src = "/verif/corpus"
    if not fs:
        fs = sorted(glob.glob("/usr/include/llvm-14/llvm/**/*.td", recursive=True))
        src = "/usr/include/llvm-14/llvm (the LLVM-14 .td files DESIGN names as the corpus; /verif/corpus holds no .td file)"
    out = []
    for f in fs:
        try:
            out.append((f, open(f, encoding="utf-8").read()))
        except (OSError, UnicodeDecodeError):
            pass
    return out, src


def coq_cone(rel):
    dirs = {"Gen": "gen", "Model": "model", "Proofs": "proofs", "Props": "props", "Extract": "extract"}
    seen, todo = set(), [rel]
    while todo:
        f = todo.pop()
        if f in seen:
            continue
        seen.add(f)
        try:
            txt = vlib.strip_coq_comments(open(os.path.join(vlib.COQ, f)).read())
        except OSError:
            continue
        for ns, mods in re.findall(r"From\s+TG\.(\w+)\s+Require\s+(?:Import\s+|Export\s+)?([^.]*)\.", txt):
            for m in mods.split():
                todo.append("%s/%s.v" % (dirs.get(ns, ns.lower()), m))
        for ns, m in re.findall(r"Require\s+(?:Import\s+|Export\s+)?TG\.(\w+)\.(\w+)", txt):
            todo.append("%s/%s.v" % (dirs.get(ns, ns.lower()), m))
    return seen


def minimise(bindir, f, key):
    """drop pieces while the real lexer still deviates in the same class from what is demanded"""
    pieces = f["pieces"]
    if pieces is None:
        if f["reference"] is None:
            return f
        tb = f["text"].encode("utf-8")
        pieces = [(k, tb[a:b].decode("utf-8")) for k, a, b in f["reference"][:-1]]
    pieces = [(p[0], p[1]) for p in pieces]

    def demanded(ps):
        text = "".join(w for _k, w in ps)
        return L.ref_lex_bytes(text) == expected_of_pieces(ps)
    if not demanded(pieces):
        return f
    cur = pieces

    def still_fails(c):
        text = "".join(w for _k, w in c)
        r = run_lexdump(bindir, [text])[0]
        exp = expected_of_pieces(c)
        return not observed_ok(r, exp) and classify_oracle(text, r, exp)[0] == key
    if len(cur) > 40:
        # a long text (corpus file, long mutation): first cut a window of pieces around the first deviation
        i = first_deviation({"tokens": f["observed"]} if isinstance(f["observed"], list) else {}, f["expected"])
        for w in (1, 3, 8, 30, 120):
            c = cur[max(0, i - w):i + w + 1]
            if c and demanded(c) and still_fails(c):
                cur = c
                break
    for _round in range(60):
        cands = [cur[:i] + cur[i + 1:] for i in range(len(cur))]
        cands = [c for c in cands if c and demanded(c)]
        if not cands:
            break
        res = run_lexdump(bindir, ["".join(w for _k, w in c) for c in cands])
        nxt = None
        for c, r in zip(cands, res):
            exp = expected_of_pieces(c)
            if not observed_ok(r, exp) and classify_oracle("".join(w for _k, w in c), r, exp)[0] == key:
                nxt = c
                break
        if nxt is None:
            break
        cur = nxt
    text = "".join(w for _k, w in cur)
    r = run_lexdump(bindir, [text])[0]
    exp = expected_of_pieces(cur)
    k2, sig = classify_oracle(text, r, exp)
    g = dict(f)
    g.update({"text": text, "pieces": cur, "expected": exp, "observed": r.get("tokens", r),
              "reference": L.ref_lex_bytes(text), "key": k2, "sig": sig, "minimised_from": esc(f["text"])[:400]})
    return g


def dev_known():
    """(the development switch C14_ASSUME_KNOWN existed while D26 was open; it is gone: nothing is tolerated)"""
    return set()


def run(ctx):
    t0 = time.time()
    timing = {}
    bindir = vlib.build_harness(False, bins=["lexdump", "unidump"])
    translators = ["t_tokens", "t_lextables", "t_unicode", "t_lexer"]
    skip_proof = os.environ.get("C14_SKIP_PROOF") == "1"
    if skip_proof:
        fails = []
        for name, (ok, msg) in vlib.run_translators(translators).items():
            if not ok:
                fails.append({"kind": "translator", "translator": name, "error": msg})
        ctx.cov.update({"obligations": len(THEOREMS), "discharged": 0, "theorems": THEOREMS,
                        "checker_cmd": "SKIPPED (C14_SKIP_PROOF=1, development only)", "trusted_base": TRUSTED})
    else:
        fails = vlib.proof_step(ctx, "TG.Props.C14", THEOREMS, ["props/C14.vo"], TRUSTED, translators=translators)
        # a translator that refuses the source leaves its previous output in coq/gen: the theorems that speak about
        # that output are NOT established for the current tree, whatever coqc says about the stale file
        tr_failed = {f["translator"] for f in fails if f.get("kind") == "translator"}
        if tr_failed:
            stale = set(THEOREMS) if tr_failed - {"t_lexer"} else {t for t in THEOREMS if t.endswith("_source")}
            ctx.cov["stale_generated_input"] = {"translators_failed": sorted(tr_failed), "theorems_not_established": sorted(stale)}
            ctx.cov["discharged"] = max(0, ctx.cov.get("discharged", 0) - len([t for t in stale if ctx.cov.get("axioms_per_theorem", {}).get(t) == []]))
        cone = coq_cone("props/C14.v")
        ctx.cov["coq_cone"] = sorted(cone)
        fails = [f for f in fails if not (f.get("kind") == "forbidden-declaration"
                                          and f.get("where", "").split(":")[0] not in cone)]
    timing["harness_and_proof"] = round(time.time() - t0, 1)
    t1 = time.time()
    try:
        syn_exe = vlib.build_model("syntax")
        spec_exe = vlib.build_model("lexspec")
    except vlib.BuildError as ex:
        fails.append({"kind": "coq-build", "file": "extraction units syntax / lexspec", "error": str(ex)[-1500:]})
        vlib.broken_ties_to_violations(ctx, fails, False)
        return
    _sk, tkidx, tokd = treeio.kind_tables(vlib.REPO)
    names = tokd["tks"]
    timing["models"] = round(time.time() - t1, 1)

    known = set(vlib.known_keys("C14"))
    dev = dev_known()
    ctx.cov["dev_switches"] = {"C14_SKIP_PROOF": skip_proof, "C14_ASSUME_KNOWN": sorted(dev)}

    # ---------------------------------------------------------------- spec ties without the real code
    t1 = time.time()
    tie_fail = []
    missing = sorted(k for k in set(L.KEYWORDS.values()) | set(L.BANGS.values()) | set(L.PUNCTS.values())
                     | set(L.DIRECTIVES.values()) | L.SEP_KINDS | {"Id", "IntVal", "BinaryIntVal", "StrVal", "CodeFragment",
                                                                  "VarName", "Eof", "Error"} if k not in tkidx)
    if missing:
        fails.append({"kind": "correspondence", "file": "TokenKind names used by the specification are missing from token_kind.rs: %s" % missing})
        vlib.broken_ties_to_violations(ctx, fails, False)
        return
    tb, n_table = table_tie(spec_exe, names)
    tie_fail += tb
    mb, n_member, n_member_pos, small_words = membership_tie(spec_exe, tkidx, ctx.quick)
    tie_fail += mb
    ub, uni_stats = unicode_tie(bindir, spec_exe, ctx.rng, ctx.quick)
    tie_fail += ub
    ctx.cov["unicode_tie"] = uni_stats
    timing["spec_ties"] = round(time.time() - t1, 1)

    # ---------------------------------------------------------------- generation
    t1 = time.time()
    g = Gen(ctx.rng)
    scale = 1 if ctx.quick else 10
    cases = []          # (family, text, pieces|None, demand: True / None = decided by the rule)

    def add_seq(family, pieces, demand):
        cases.append((family, "".join(p[1] for p in pieces), [(p[0], p[1]) for p in pieces], demand))
        return pieces

    pair_matrix, sep_kinds, n_by_len = {}, {}, {}
    kept = []

    def account(pieces):
        n_by_len[len(pieces)] = n_by_len.get(len(pieces), 0) + 1
        for a, b in zip(pieces, pieces[1:]):
            if a[0] not in L.SEP_KINDS and b[0] not in L.SEP_KINDS:
                k = pair_class(a) + " | " + pair_class(b)
                pair_matrix[k] = pair_matrix.get(k, 0) + 1
        for p in pieces:
            if p[0] in L.SEP_KINDS:
                sep_kinds[p[0]] = sep_kinds.get(p[0], 0) + 1

    # regression / documentation sequences (direct adjacency named in the design, D10a-c, D12)
    fixed = [
        [("Id", "a"), ("Plus", "+"), ("Id", "b")],
        [("Id", "x"), ("LSquare", "["), ("IntVal", "0"), ("DotDotDot", "..."), ("IntVal", "3"), ("RSquare", "]")],
        [("XAdd", "!add"), ("LParen", "(")], [("StrVal", '"s"'), ("Paste", "#"), ("Id", "id")],
        [("IntVal", "1"), ("Minus", "-")], [("IntVal", "-1")], [("DotDotDot", "..."), ("Dot", ".")],
        [("Id", "a"), ("Whitespace", " "), ("Minus", "-")], [("Id", "a"), ("Whitespace", " "), ("Plus", "+")],
        [("StrVal", '"x\\\\"')], [("StrVal", '"x\\\\"'), ("Whitespace", " "), ("Id", "y")],
        [("BlockComment", "/* a /* b */ c */"), ("IntVal", "42")], [("Id", "4x")], [("Id", "0_foo"), ("Semi", ";")],
        [("LSquare", "["), ("CodeFragment", "[{}]"), ("RSquare", "]")], [("LBrace", "{"), ("CodeFragment", "[{}]"), ("RBrace", "}")],
        [("IntVal", "1"), ("IntVal", "+2")], [("IntVal", "1"), ("IntVal", "-2")], [("Minus", "-"), ("IntVal", "-1")],
        [("VarName", "$a"), ("VarName", "$b")], [("StrVal", '"a"'), ("StrVal", '"b"')], [("XCond", "!cond"), ("LParen", "(")],
        [("XLog2", "!logtwo"), ("LParen", "("), ("IntVal", "8"), ("RParen", ")")],
        [("Id", "a"), ("BlockComment", "/**/"), ("Id", "b")], [("Id", "a"), ("LineComment", "//"), ("Whitespace", "\n"), ("Id", "b")],
        [("Id", "a"), ("LineComment", "// c")], [("IntVal", "0x1"), ("Minus", "-")], [("XAdd", "!add"), ("Id", "_x")],
        [("XAdd", "!add"), ("IntVal", "1")], [("Paste", "#"), ("Paste", "#")], [("Id", "a"), ("Paste", "#"), ("Id", "b")],
        [("Def", "def"), ("Whitespace", "\f"), ("Id", "X"), ("Semi", ";")],
        [("Id", "0b"), ("Semi", ";")], [("Id", "0x")], [("Def", "def"), ("Whitespace", " "), ("Id", "0xg"), ("Semi", ";")],
        [("BlockComment", "/**/"), ("LineComment", "//x")], [("BlockComment", "/**/"), ("BlockComment", "/**/")],
        [("IntVal", "1"), ("Dot", "."), ("IntVal", "2")], [("Id", "a"), ("Dot", "."), ("Id", "b")],
        [("Less", "<"), ("Less", "<")], [("DotDotDot", "..."), ("DotDotDot", "...")],
    ]
    for ps in fixed:
        ps = [(k, w, "fixed") for k, w in ps]
        add_seq("fixed", ps, None)
        account(ps)

    # (iii) every boundary instance alone, after a line end, before a blank; negatives as raw texts
    singles, negatives = [], []
    for k, lst in (("Id", ID_BOUNDARY), ("IntVal", DEC_BOUNDARY + HEX_BOUNDARY), ("BinaryIntVal", BIN_BOUNDARY),
                   ("StrVal", STR_BOUNDARY), ("CodeFragment", CODE_BOUNDARY), ("VarName", VAR_BOUNDARY),
                   ("Whitespace", WS_BOUNDARY), ("LineComment", LINE_BOUNDARY), ("BlockComment", BLOCK_BOUNDARY)):
        singles += [(k, w) for w in lst]
    singles += [(k, w) for w, k in sorted(L.KEYWORDS.items())] + [(k, w) for w, k in sorted(L.BANGS.items())] \
        + [(k, w) for w, k in sorted(L.PUNCTS.items())]
    singles += [("Id", w) for w in g.kw_derived]
    for k, lst in (("IntVal", DEC_NEG + HEX_NEG), ("BinaryIntVal", BIN_NEG), ("StrVal", STR_NEG), ("CodeFragment", CODE_NEG),
                   ("VarName", VAR_NEG), ("XAdd", BANG_NEG), ("Whitespace", WS_NEG), ("LineComment", LINE_NEG),
                   ("BlockComment", BLOCK_NEG), ("Id", sorted(L.KEYWORDS) + ["0x1g", "0b1", "0b10x", "a-b", "", "1", "$a", "é", "a\u00e9"])):
        negatives += [(k, w) for w in lst if w != ""]
    negatives += PUNCT_NEG + [("Class", "classy"), ("Class", "Class"), ("Def", "defm"), ("XCon", "!cond"), ("XLog2", "!log2"),
                              ("IntVal", "0b1"), ("BinaryIntVal", "0x1"), ("Id", "0x0g")]
    single_bad = []
    for k, w in singles:
        if not L.is_instance(k, w):
            single_bad.append([k, esc(w)])
            continue
        cls = "single"
        add_seq("single", [(k, w, cls)], True)
        if k != "Whitespace":
            add_seq("single", [("Whitespace", "\n", cls), (k, w, cls)], True)
            if k != "LineComment":
                add_seq("single", [(k, w, cls), ("Whitespace", " ", cls)], True)
            else:
                add_seq("single", [(k, w, cls), ("Whitespace", "\r\n", cls)], True)
    for k, w in negatives:
        if L.is_instance(k, w):
            single_bad.append([k, esc(w), "negative is an instance"])
        cases.append(("negative", w, [(k, w)], False))
    # (iii') exhaustive sweep around the 64-bit boundaries of interpret_number: every value 2^63 + d, 2^64 + d,
    # 10^19 + d, 10^20 + d for |d| <= 48, spelt unsigned / + / - decimal (also with leading zeros), hex (both cases, leading
    # zeros) and binary; the reference decides which spellings are integers (the others only go through the correspondence
    # and the Coq-spec tie as negatives)
    n_int_sweep = [0, 0]
    sweep = sorted({b + d for b in (2 ** 63, 2 ** 64, 10 ** 19, 10 ** 20) for d in range(-48, 49)})
    for v in sweep:
        spell = [("IntVal", "%d" % v), ("IntVal", "+%d" % v), ("IntVal", "-%d" % v), ("IntVal", "000%d" % v),
                 ("IntVal", "-0%d" % v), ("IntVal", "0x%x" % v), ("IntVal", "0x%X" % v), ("IntVal", "0x00%x" % v),
                 ("BinaryIntVal", "0b" + bin(v)[2:]), ("BinaryIntVal", "0b0" + bin(v)[2:])]
        for k, w in spell:
            if L.is_instance(k, w):
                n_int_sweep[0] += 1
                add_seq("int-boundary", [(k, w, "single")], True)
                add_seq("int-boundary", [("LParen", "(", "single"), (k, w, "single"), ("RParen", ")", "single")], True)
            else:
                n_int_sweep[1] += 1
                cases.append(("negative", w, [(k, w)], False))
    ctx.cov["int_boundary_sweep"] = {"values": len(sweep), "valid_spellings": n_int_sweep[0], "invalid_spellings": n_int_sweep[1]}
    if single_bad:
        tie_fail.append({"tie": "boundary lists of the generator vs lexreflib.is_instance", "bad": single_bad[:10]})

    # pair matrix: every ordered pair of adjacency classes, directly adjacent (the rule decides)
    pc = pair_classes(g)
    pcn = sorted(pc)
    for a in pcn:
        for b in pcn:
            for _ in range(2 * scale if ctx.quick else 6):
                ps = [pc[a](), pc[b]()]
                add_seq("pair", ps, None)
                if L.not_merged([(p[0], p[1]) for p in ps]):
                    account(ps)
    # (i)+(ii) random sequences
    n_seq = 30000 * scale
    for i in range(n_seq):
        r = i % 20
        if r < 3:
            ps = g.unchecked_sequence()
            add_seq("unchecked", ps, None)
            if L.not_merged([(p[0], p[1]) for p in ps]):
                account(ps)
                kept.append(ps)
        else:
            ps = g.sequence(0.0 if r < 7 else 0.45 if r < 14 else 0.9)
            add_seq("seq", ps, True)
            account(ps)
            kept.append(ps)
    # mutations of valid sequences, raw random texts, exhaustive small texts
    n_mut, n_raw = 10000 * scale, 5000 * scale
    for _ in range(n_mut):
        ps = ctx.rng.choice(kept)
        cases.append(("mutated", mutate(ctx.rng, "".join(p[1] for p in ps)), None, False))
    for _ in range(n_raw):
        cases.append(("raw", raw_text(ctx.rng), None, False))
    exh_alpha = CRITICAL if ctx.quick else CRITICAL + ["\r", "9"]
    exh_len = 3 if ctx.quick else 3
    n_exh = 0
    for w in itertools.chain(words_over(exh_alpha, exh_len), small_words):
        cases.append(("small-exhaustive", w, None, False))
        n_exh += 1
    if not ctx.quick:
        for w in words_over(list("a0x+-.\"\\/*[{}]# \n"), 4):
            cases.append(("small-exhaustive", w, None, False))
            n_exh += 1
    corpus, corpus_src = corpus_files()
    for f, s in corpus:
        cases.append(("corpus", s, None, False))
    timing["generation"] = round(time.time() - t1, 1)

    # ---------------------------------------------------------------- evaluation (sharded)
    t1 = time.time()
    chunks, cur, weight = [], [], 0
    order = sorted(range(len(cases)), key=lambda i: -len(cases[i][1]) if cases[i][0] == "corpus" else 0)
    for i in order:
        c = cases[i]
        cur.append(c)
        weight += 40 + len(c[1])
        if weight >= 160000 or (c[0] == "corpus" and weight >= 300000):
            chunks.append(cur)
            cur, weight = [], 0
    if cur:
        chunks.append(cur)
    stats, keys = {}, {}
    oracle_fail, corr_fail = [], []
    n_oracle_fail = n_corr_fail = 0
    with ProcessPoolExecutor(max_workers=WORKERS) as ex:
        for st, of, cf, tf, nof, ncf, ks in ex.map(process_chunk, [(bindir, syn_exe, spec_exe, tkidx, c) for c in chunks]):
            for k, v in st.items():
                stats[k] = stats.get(k, 0) + v
            for k, v in ks.items():
                keys[k] = keys.get(k, 0) + v
            oracle_fail += of
            corr_fail += cf
            tie_fail += tf
            n_oracle_fail += nof
            n_corr_fail += ncf
    timing["evaluation"] = round(time.time() - t1, 1)

    # ---------------------------------------------------------------- verdict
    t1 = time.time()
    for b in tie_fail[:6]:
        fails.append({"kind": "correspondence", "file": "spec tie: " + b["tie"], "detail": b})
    oracle_fail.sort(key=lambda f: (len(f["text"]), f["text"]))
    reported, seen_sig, known_hits, seen_text = 0, {}, {}, set()
    for f in oracle_fail:
        kk = f["key"] or ("other:" + f["sig"])
        if seen_sig.get(kk, 0) >= (1 if f["key"] else 3) or reported >= 6:
            continue
        seen_sig[kk] = seen_sig.get(kk, 0) + 1
        m = minimise(bindir, f, f["key"])
        if m["text"] in seen_text:
            continue
        seen_text.add(m["text"])
        key = m["key"]
        desc = "lexer: %s is lexed as %s, expected %s (%s)" % (
            json.dumps(esc(m["text"])[:200]), json.dumps([t[:4] for t in m["observed"]][:6]) if isinstance(m["observed"], list) else m["observed"],
            json.dumps(m["expected"][:6]), m["sig"])
        if key is not None and (key in known or key in dev):
            known_hits[key] = "key=%s %s [%d failing inputs of this class in this run]" % (key, desc, keys.get(key, 0))
            continue
        reported += 1
        ctx.violation(desc, {
            "property": "C14", "seed": ctx.seed, "family": m["family"], "text": [ord(c) for c in m["text"]],
            "text_escaped": esc(m["text"]), "pieces": None if m["pieces"] is None else [[k, [ord(c) for c in w]] for k, w in [(p[0], p[1]) for p in m["pieces"]]],
            "pieces_escaped": None if m["pieces"] is None else [[p[0], esc(p[1])] for p in m["pieces"]],
            "expected": m["expected"], "observed": m["observed"], "reference": m["reference"], "model": m.get("model"),
            "class": key or m["sig"], "minimised_from": m.get("minimised_from"),
            "oracle": "the text is a sequence of valid spec-level token instances that the side condition not_merged allows (or a text the reference lexer, written from the TableGen Programmer's Reference, accepts); the real lexer must return exactly these kinds and byte boundaries, then Eof, and no Error token"})
    for k, d in known_hits.items():
        ctx.known(k, d)
    corr_by_class = {}
    for f in corr_fail:
        corr_by_class.setdefault(f["class"], []).append(f)
    tolerated = {}
    for cls, fs in sorted(corr_by_class.items()):
        n = keys.get("corr:" + cls, len(fs))
        if cls in dev:
            tolerated[cls] = n
            continue
        fs.sort(key=lambda f: len(f["text"]))
        fails.append({"kind": "correspondence",
                      "file": "model-vs-implementation (syntax_run lex vs lexdump); input class: %s%s" % (
                          cls, " (identifiers 0b / 0x not followed by a digit of that base, D26: the model and the code differ exactly there)" if cls == KEY_D26 else ""),
                      "count": n,
                      "first": [{"text": esc(f["text"])[:300], "real": f["real"][:600], "model": f["model"][:600], "family": f["family"]} for f in fs[:3]]})
    # extraction cross-check: a sample of the run evaluated by vm_compute inside Coq == the extracted executable
    import coqcases
    pool = sorted({c[1] for c in cases if 0 < len(c[1]) <= 48})
    xs = ctx.rng.sample(pool, min(len(pool), 150 if ctx.quick else 600))
    xn, xf = coqcases.crosscheck("lex", xs, run_lines(syn_exe, "lex", [text_line(t) for t in xs]), "C14")
    ctx.cov["extraction_crosscheck_cases"] = xn
    if xf:
        fails.append(xf)
    vlib.broken_ties_to_violations(ctx, fails, reported > 0)
    timing["verdict_and_minimisation"] = round(time.time() - t1, 1)

    # ---------------------------------------------------------------- evidence
    distinct = set()
    nontrivial = 0
    for family, text, pieces, demand in cases:
        if pieces is None or demand is False or text in distinct:
            continue
        ps = pieces
        if not (all(L.is_instance(k, w) for k, w in ps) and L.not_merged(ps)):
            continue
        distinct.add(text)
        toks = [p for p in ps if p[0] not in L.SEP_KINDS]
        direct = any(a[0] not in L.SEP_KINDS and b[0] not in L.SEP_KINDS for a, b in zip(ps, ps[1:]))
        comment = any(p[0] in ("LineComment", "BlockComment") for p in ps)
        if len(toks) >= 2 and (direct or comment):
            nontrivial += 1
    allowed_pairs = 0
    for a in pcn:
        for b in pcn:
            if a in ("ws", "line-comment", "block-comment") or b in ("ws", "line-comment", "block-comment"):
                continue
            allowed_pairs += 1
    ctx.cov["evaluations"] = stats.get("oracle_evaluations", 0)
    ctx.cov["distinct_nontrivial"] = nontrivial
    ctx.cov["distinct_demanded_sequences"] = len(distinct)
    ctx.cov["rule"] = (
        "evaluations = texts on which the oracle demanded an exact token list from the real lexer (generated sequences of "
        "valid pieces with not_merged, and every other text the reference lexer accepts); distinct_nontrivial = distinct "
        "demanded generated sequences with >= 2 tokens and a direct token-token adjacency or a comment separator. "
        "Inputs: %d fixed regression sequences; every boundary instance of every class alone / after a line end / before "
        "a blank (%d instances, %d negatives); every ordered pair of the %d adjacency classes directly adjacent; %d seeded "
        "random sequences of 1..12 pieces (15%% concatenated without regard to the side condition, 20%% separated only, 35%% "
        "adjacent with p=0.45, 30%% with p=0.9 wherever the rule allows); %d code point mutations of valid sequences; %d raw "
        "random texts; %d exhaustive small texts (all texts of length <= %d over %s, and the words of the membership tie); "
        "%d corpus files (%s)" % (len(fixed), len(singles), len(negatives), len(pcn), n_seq, n_mut, n_raw, n_exh, exh_len,
                                   json.dumps("".join(exh_alpha)), len(corpus), corpus_src))
    ctx.cov["input_distribution"] = {
        "instances_per_class": dict(sorted(g.count.items())),
        "separator_kinds_in_demanded_sequences": dict(sorted(sep_kinds.items())),
        "sequences_by_piece_count": {str(k): v for k, v in sorted(n_by_len.items())},
        "direct_adjacency_pair_classes_covered": len(pair_matrix),
        "direct_adjacency_pair_classes_total_token_pairs": allowed_pairs,
        "direct_adjacency_pair_matrix": dict(sorted(pair_matrix.items())),
        "families": {fam: sum(1 for c in cases if c[0] == fam) for fam in sorted({c[0] for c in cases})},
        **stats}
    ctx.cov["spec_ties"] = {"table_entries_compared": n_table, "membership_queries": n_member,
                            "membership_queries_positive": n_member_pos,
                            "sequences_compared_with_extracted_not_merged_and_separated": stats.get("spec_tie_sequences", 0),
                            "pieces_compared_with_extracted_valid_piece_d": stats.get("spec_tie_pieces", 0),
                            "failures": len(tie_fail), "first_failures": tie_fail[:8]}
    ctx.cov["traces_validated_against_impl"] = stats.get("correspondence_texts", 0)
    ctx.cov["oracle_failures"] = n_oracle_fail
    ctx.cov["oracle_failure_classes"] = {k: v for k, v in sorted(keys.items()) if not k.startswith("corr:")}
    ctx.cov["correspondence_disagreements"] = n_corr_fail
    ctx.cov["correspondence_disagreement_classes"] = {k[5:]: v for k, v in sorted(keys.items()) if k.startswith("corr:")}
    ctx.cov["correspondence_disagreements_tolerated_by_dev_switch"] = tolerated
    ctx.cov["corpus_source"] = corpus_src
    t1 = time.time()
    try:
        ids = [w for w in ID_BOUNDARY if len(w) < 60] + sorted({g.ident()[1] for _ in range(60)})
        ints = [w for w in DEC_BOUNDARY + HEX_BOUNDARY + BIN_BOUNDARY if not w.startswith("+") or True]
        ctx.cov["llvm_tblgen_14_informational"] = llvm_acceptance(ids, ints)
    except Exception as ex:                          # informational only
        ctx.cov["llvm_tblgen_14_informational"] = {"available": False, "error": str(ex)[:300]}
    timing["llvm_tblgen"] = round(time.time() - t1, 1)
    samples = []
    for fam in ("fixed", "seq", "seq", "unchecked", "pair", "mutated"):
        cand = [c for c in cases if c[0] == fam and len(c[1]) < 80]
        if cand:
            c = ctx.rng.choice(cand)
            r = run_lexdump(bindir, [c[1]])[0]
            samples.append({"family": fam, "text_escaped": esc(c[1]), "pieces": None if c[2] is None else [[k, esc(w)] for k, w in c[2]],
                            "reference": L.ref_lex_bytes(c[1]), "observed": r.get("tokens", r)})
    ctx.cov["samples"] = samples
    timing["total"] = round(time.time() - t0, 1)
    ctx.cov["timing_s"] = timing
    ctx.assumptions = [
        "the property speaks about texts that ARE sequences of valid tokens and separators; on any other text (where the reference lexer says invalid) only the model/implementation correspondence is checked",
        "preprocessing directives (#define, #ifdef, ...) are not part of the statement; `#` directly followed by a directive word is outside the generated sequences (side condition not_merged) and, unless it is a cleanly delimited directive, outside the reference lexer's domain",
        "integers: the 64-bit range condition of llvm-tblgen is part of the specification (wider literals are not valid tokens)",
        "`!logtwo` is the reference spelling of the operator kind the server names XLog2; `!log2` is not an operator",
    ]


# ====================================================================== replay

def replay(ctx, path):
    r = json.load(open(path))
    if "text" not in r:
        print(json.dumps(r, indent=1)[:3000])
        print("replay: this file names a broken proof obligation / tie, not an input; re-run ./check C14")
        return 1
    bindir = vlib.build_harness(False, bins=["lexdump", "unidump"])
    vlib.run_translators(["t_tokens", "t_lextables", "t_unicode"])
    syn_exe = vlib.build_model("syntax")
    _sk, tkidx, tokd = treeio.kind_tables(vlib.REPO)
    text = "".join(chr(c) for c in r["text"])
    pieces = None if r.get("pieces") is None else [(k, "".join(chr(c) for c in w)) for k, w in r["pieces"]]
    ref = L.ref_lex_bytes(text)
    real = run_lexdump(bindir, [text])[0]
    model = run_lines(syn_exe, "lex", [text_line(text)])[0]
    names = tokd["tks"]

    def model_tokens(line):
        out, o = [], 0
        for w in line.split(" "):
            if w.count(":") < 2:
                return line
            k, n, e = w.split(":", 2)
            out.append([names[int(k)], o, o + int(n), None if e == "-" else e.replace("_", " ")])
            o += int(n)
        return out
    expected = expected_of_pieces(pieces) if pieces is not None else ref
    print("text            :", json.dumps(esc(text)), r["text"][:200])
    if pieces is not None:
        print("pieces          :", json.dumps([[k, esc(w)] for k, w in pieces]))
        print("pieces valid    :", all(L.is_instance(k, w) for k, w in pieces), " not_merged:", L.not_merged(pieces))
    print("reference lexer :", json.dumps(ref) if ref is not None else "INVALID (not a sequence of valid tokens: nothing demanded)")
    print("model (Lexer.v) :", json.dumps(model_tokens(model)))
    print("implementation  :", json.dumps(real.get("tokens", real)))
    print("recorded        :", json.dumps(r.get("observed")))
    if expected is None:
        print("replay: the reference lexer does not accept this text; nothing is demanded")
        return 0
    if not observed_ok(real, expected):
        key, sig = classify_oracle(text, real, expected)
        print("FAILS           : expected", json.dumps(expected), "class", key or sig)
        print("VIOLATION property=C14 replay=%s" % path)
        return 1
    print("replay: the implementation now lexes this text exactly as demanded")
    return 0
