"""C08 Server liveness: no interleaving of edits and requests deadlocks the server.

1. harness `lspdrive` (the REAL lsp::server::Server over an in-memory duplex transport, same layer stack as
   main.rs) is built against the current tree with hook H2 compiled in (and once more without, for the stress run);
2. the Coq cone props/C08.vo is re-checked: C08_deadlock_free / C08_terminates / C08_live / C08_tasks_never_blocked
   over the lock-protocol LTS of coq/model/Sched.v (every policy, every script passing the static discipline, every
   number of handlers and tasks), C08_old_deadlocks (the pre-fix protocol reaches a deadlock), C08_trace_checker_sound;
3. tie (i): the hook-H2 event sequence of EVERY session below is resolved (which task ran on which pool thread) and
   given to the extracted model (`server_run trace` = SchedTrace.check_trace): it must be the observable projection
   of a run of the LTS for the script of the messages the main loop handled, ending in a final state;
4. oracle (ii): controlled schedules on the real server - for one request kind (or the diagnostics task, or two
   request tasks) a hold parks the task at one of its hook points until the main loop reaches one of the points of
   the didChange handler (and the other way round): every request must be answered and every notification
   processed (a hang is observed by lspdrive's watchdog, and confirmed by a second run with a longer one);
5. oracle (iii): random bursts of notifications and requests without any waiting, hooks on and hooks off.
A failing schedule is reported with the session script (steps + holds) as replay.
"""
import json
import os
import time

import vlib
import serverlib as sl

THEOREMS = ["C08_deadlock_free", "C08_terminates", "C08_live", "C08_tasks_never_blocked", "C08_protocol_is_source", "C08_old_deadlocks",
            "C08_trace_checker_sound"]
TRUSTED = [
    "Coq 8.16.1 kernel (coqc; vm_compute only in C08_old_deadlocks / the non-vacuity example); no axioms (Print Assumptions: closed under the global context)",
    "the LTS of coq/model/Sched.v as a model of server.rs / from_proto.rs / analysis.rs: which lock operations each thread performs in which order (validated on every run by trace inclusion of hook-H2 traces of the real server), std::sync::RwLock (a reader is blocked by a writer inside and, depending on an arbitrary policy, by a queued writer; a writer by anybody inside), std::sync::Mutex, salsa 0.16 (an input write / synthetic_write takes the revision lock exclusively and waits for every snapshot; Snapshot holds it shared until dropped; no cancellation) - read in salsa-0.16.1/src/runtime.rs, not verified",
    "tools/translate/t_server.py (rigid-subset reader of server.rs / from_proto.rs; regenerates gen/GenServerSkel.v on every run; C08_protocol_is_source proves the model's skeletons and scripts equal to it); trace inclusion of real hook traces cross-checks it",
    "fairness: the tokio blocking pool eventually runs every spawned task and the OS schedules every runnable thread (the theorems speak about maximal schedules); async-lsp dispatches incoming messages in order on one task",
    "panics inside a task (e.g. a request for a document that was never opened) are outside the model (C03 inventory)",
    "hook H2 (pure additions under cfg(tablegen_lsp_verif)) logs at the places named in server.rs / from_proto.rs; the harness harness/src/bin/lspdrive.rs, lib/serverlib.py (binding of pool threads to tasks), this driver",
    "Coq extraction (ExtrOcamlBasic only) and the OCaml driver coq/extract/server_driver.ml",
]

SUB = "class Base;\nclass Other : Missing;\n"
MAIN1 = "include \"sub.td\"\nclass Foo : Base;\ndef d : Foo;\n"
MAIN2 = "include \"sub.td\"\nclass Foo : Base;\ndef d : Foo;\ndef e : Nope;\n"
WATCHDOG = 4000
HOLD_MS = 250


def req_step(kind, found=True):
    st = {"request": kind, "path": "main.td"}
    if kind == "inlayHint":
        st["range"] = [0, 0, 4, 0]
    else:
        st["line"], st["character"] = (1, 12) if found else (1, 2)
    return st


def task_points(kind, found):
    """(point, count) pairs at which the task of a request can be parked"""
    pts = [("task.start", 1), ("task.vfs_read." + sl.FIRST_SITE[kind], 1), ("task.vfs_acquired", 1)]
    if kind in sl.SECOND_SITE and found:
        pts += [("task.vfs_read." + sl.SECOND_SITE[kind], 1), ("task.vfs_acquired", 2)]
    pts.append(("task.end", 1))
    return pts


DIAG_POINTS = [("task.start", 1), ("task.published_files.lock", 1), ("task.vfs_read.diagnostics", 1),
               ("task.vfs_acquired", 1), ("task.vfs_read.diagnostics", 2), ("task.vfs_acquired", 2), ("task.end", 1)]


def base_script(steps, holds, watchdog=WATCHDOG):
    return {"files_on_disk": [["sub.td", SUB]], "mode": "burst", "watchdog_ms": watchdog, "quiet_ms": 200,
            "hard_ms": watchdog * 4 + 20000, "steps": steps, "holds": holds}


def hold(point, until, arm, count):
    return {"point": point, "until": until, "max_ms": HOLD_MS, "arm_after_step": arm, "count": count}


NOTIFS = [("didChange", {"change": "main.td", "text": MAIN2}),
          ("didOpen of a new document", {"open": "other.td", "text": "class Oth;\ndef o : Oth;\n"})]


def one_task_schedules():
    """one request task against the handler of a didChange / of a didOpen of a document the server has not seen"""
    out = []
    for nname, notif in NOTIFS:
        for kind in sl.REQUEST_KINDS:
            for found in ((True, False) if kind in ("definition", "references") else (True,)):
                steps = [{"open": "main.td", "text": MAIN1}, {"wait_idle": True}, req_step(kind, found), notif, {"wait_idle": True}]
                for tp, cnt in task_points(kind, found):
                    for mp in sl.MAIN_POINTS:
                        for direction in ("task-waits-for-main", "main-waits-for-task"):
                            if direction == "task-waits-for-main":
                                h = hold(tp, "main." + mp, 2, cnt)
                            else:
                                h = hold("main." + mp, tp, 3, 1)
                            out.append({"name": "%s%s vs %s: %s %s#%d / main.%s" % (kind, "" if found else "(none)", nname, direction, tp, cnt, mp),
                                        "critical": direction == "task-waits-for-main" and mp in ("vfs_write.acquired", "host_set_file_content.before"),
                                        "script": base_script(steps, [h])})
    return out


def diag_schedules():
    """the diagnostics task of didOpen against the handler of an immediately following notification"""
    out = []
    for nname, notif in NOTIFS:
        steps = [{"open": "main.td", "text": MAIN1}, notif, {"wait_idle": True}]
        for tp, cnt in DIAG_POINTS:
            for mp in sl.MAIN_POINTS:
                for direction in ("task-waits-for-main", "main-waits-for-task"):
                    if direction == "task-waits-for-main":
                        h = hold(tp, "main." + mp, -1, cnt)
                    else:
                        h = hold("main." + mp, tp, 1, 1)
                    out.append({"name": "diagnostics vs %s: %s %s#%d / main.%s" % (nname, direction, tp, cnt, mp),
                                "critical": direction == "task-waits-for-main" and mp in ("vfs_write.acquired", "host_set_file_content.before"),
                                "script": base_script(steps, [h])})
    return out


def two_task_schedules(rng, n):
    """two request tasks, each parked at one of its points until the main loop reaches a point of didChange"""
    out = []
    variants = [(k, f) for k in sl.REQUEST_KINDS for f in ((True, False) if k in ("definition", "references") else (True,))]
    for _ in range(n):
        (k1, f1), (k2, f2) = rng.choice(variants), rng.choice(variants)
        nname, notif = rng.choice(NOTIFS)
        steps = [{"open": "main.td", "text": MAIN1}, {"wait_idle": True}, req_step(k1, f1), req_step(k2, f2), notif, {"wait_idle": True}]
        (tp1, c1), (tp2, c2) = rng.choice(task_points(k1, f1)), rng.choice(task_points(k2, f2))
        mp1, mp2 = rng.choice(sl.MAIN_POINTS), rng.choice(sl.MAIN_POINTS)
        if tp1 == tp2 and mp1 == mp2:
            holds = [hold(tp1, "main." + mp1, 2, max(c1, c2) + 1)]
        else:
            holds = [hold(tp1, "main." + mp1, 2, c1), hold(tp2, "main." + mp2, 3, c2)]
        out.append({"name": "%s + %s vs %s: %s / main.%s, %s / main.%s" % (k1, k2, nname, tp1, mp1, tp2, mp2), "critical": False,
                    "script": base_script(steps, holds)})
    return out


def burst_sessions(rng, n):
    out = []
    texts = [MAIN1, MAIN2, "class A;\n", "include \"sub.td\"\n", "", "def x : Base;\ninclude \"sub.td\"\n"]
    for i in range(n):
        steps = [{"open": "main.td", "text": rng.choice(texts)}]
        opened = ["main.td"]
        for _ in range(rng.randrange(3, 30)):
            r = rng.random()
            if r < 0.05:
                steps.append({"change_empty": rng.choice(opened)})
            elif r < 0.35:
                steps.append({"change": rng.choice(opened), "text": rng.choice(texts)})
            elif r < 0.45:
                p = rng.choice(["main.td", "sub.td", "other.td"])
                steps.append({"open": p, "text": rng.choice(texts) if p != "sub.td" else SUB})
                if p not in opened:
                    opened.append(p)
            else:
                k = rng.choice(sl.REQUEST_KINDS)
                st = req_step(k, rng.random() < 0.6)
                st["path"] = rng.choice(opened)
                steps.append(st)
        if i == 0:      # the history of defect D9, verbatim
            steps = [{"open": "main.td", "text": MAIN1}, {"change": "main.td", "text": MAIN2}, req_step("definition")]
        if i == 1:      # two documents opened back to back, then a request
            steps = [{"open": "main.td", "text": MAIN1}, {"open": "other.td", "text": "class Oth;\n"}, req_step("hover")]
        out.append({"name": "burst #%d (%d steps)" % (i, len(steps)), "critical": True,
                    "script": base_script(sl.cap_in_flight(steps), [])})
    return out


KNOWN_KEY = "async-lsp-concurrency-limit"


def concurrency_limit_probe(bindir):
    """The known finding of the async-lsp router (NOT part of the vfs/salsa protocol modelled in Sched.v): more
    requests in flight than ConcurrencyLayer::default() admits (= available_parallelism) stall the main loop.
    Reproduced with the process pinned to one CPU (limit 1) and 3 hover requests back-to-back; when pinning is
    impossible, with available_parallelism + 2 requests whose tasks are parked at task.start.  No notification is
    involved after the document is open and idle.  Returns (script, out, in_flight, limit, how)."""
    pin = sl.pin_to_one_cpu()
    if pin is not None:
        n, limit, holds, how = 3, 1, [], "process pinned to one CPU (sched_setaffinity), 3 hover requests back-to-back"
    else:
        limit = sl._NCPU
        n = limit + 2
        holds = [{"point": "task.start", "until": "main.never", "max_ms": 1200, "arm_after_step": 2}]
        how = "%d hover requests back-to-back, their tasks parked at task.start for 1.2 s" % n
    steps = [{"open": "main.td", "text": MAIN1}, {"wait_idle": True}] + [req_step("hover") for _ in range(n)] + [{"wait_idle": True}]
    sc = base_script(steps, holds, watchdog=3500)
    return sc, sl.run_session(bindir, sc, preexec_fn=pin), n, limit, how


def empty_change_sessions():
    """a didChange WITHOUT content (contentChanges: [], schema-legal) between a request and a real edit: nothing to do for
    the server, which must go on serving"""
    out = []
    for mode in ("burst", "settled"):
        for kind in ("hover", "definition", "documentSymbol"):
            steps = [{"open": "main.td", "text": MAIN1}, {"wait_idle": True}, req_step(kind), {"change_empty": "main.td"},
                     {"change": "main.td", "text": MAIN2}, req_step("hover"), {"change_empty": "main.td"}, req_step("references"),
                     {"wait_idle": True}]
            sc = base_script(steps, [])
            sc["mode"] = mode
            out.append({"name": "didChange without content between a %s request and an edit (%s)" % (kind, mode), "critical": True,
                        "script": sc})
    return out


def multi_change_sessions():
    """ONE didChange carrying several full-text contentChanges entries (schema-legal; added after mutation wave 5, C08-mut7:
    a server that applies every entry in turn must not block on the task it spawned for the previous one), followed by
    requests, in burst and settled mode"""
    out = []
    for mode in ("burst", "settled"):
        for kind in ("hover", "documentSymbol"):
            for texts in ([MAIN2, MAIN1], [MAIN2, MAIN1, MAIN2]):
                steps = [{"open": "main.td", "text": MAIN1}, {"wait_idle": True},
                         {"change": "main.td", "text": texts[0], "texts": texts}, req_step(kind),
                         {"change": "main.td", "text": texts[0], "texts": texts}, req_step("references"), {"wait_idle": True}]
                sc = base_script(steps, [])
                sc["mode"] = mode
                out.append({"name": "didChange with %d content entries before a %s request (%s)" % (len(texts), kind, mode),
                            "critical": True, "script": sc})
    return out


BIG = "".join("class K%d;\n" % i for i in range(2000))


def crowd_sessions(rounds):
    """a LARGE document; every round: an edit immediately followed by as many requests as may be in flight (all of them
    wait for the same index computation and finish together, next to the diagnostics task of the edit)"""
    n = min(7, sl.MAX_IN_FLIGHT)
    steps = [{"open": "big.td", "text": BIG + "def d : K0;\n"}, {"wait_idle": True}]
    for r in range(rounds):
        steps.append({"change": "big.td", "text": BIG + "def d : K%d;\ndef e%d : K%d;\n" % (r, r, r + 1)})
        for k in range(n):
            steps.append({"request": ["hover", "definition", "references"][k % 3], "path": "big.td", "line": 5 + k, "character": 7})
        steps.append({"wait_idle": True})
    sc = base_script(steps, [], watchdog=8000)
    sc["files_on_disk"] = []
    return [{"name": "crowd: %d rounds of an edit of a 2000-class document followed by %d requests" % (rounds, n), "critical": True,
             "script": sc}]


def effective(out):
    """a hold did what it was meant to do: the parked thread was released by the awaited event"""
    return any(e.get("ev") == "released" and e.get("by") == "event" for e in out.get("log", []))


def run(ctx):
    t0 = time.time()
    bindir = vlib.build_harness(True, bins=["lspdrive"])
    fails = vlib.proof_step(ctx, "TG.Props.C08", THEOREMS, ["props/C08.vo"], trusted_base=TRUSTED, translators=["t_server"])
    exe = vlib.build_model("server")
    t_setup = time.time() - t0

    rng = ctx.rng
    one = one_task_schedules()
    dg = diag_schedules()
    if ctx.quick:
        crit = [s for s in one + dg if s["critical"]]
        rest = [s for s in one + dg if not s["critical"]]
        rng.shuffle(rest)
        controlled = crit + rest[:150] + two_task_schedules(rng, 40) + empty_change_sessions() + multi_change_sessions()
        bursts = burst_sessions(rng, 24) + crowd_sessions(10) + crowd_sessions(10)
    else:
        controlled = one + dg + two_task_schedules(rng, 400) + empty_change_sessions() + multi_change_sessions()
        bursts = burst_sessions(rng, 150) + [c for _ in range(6) for c in crowd_sessions(25)]

    # the hooks-off binary (production configuration) is built only when the hooks-on sessions found nothing
    sessions = [("controlled", s, bindir) for s in controlled] + [("burst", s, bindir) for s in bursts] + \
               [("burst-hooks-off", s, None) for s in bursts]
    # run in batches so that a tree that deadlocks everywhere does not cost (sessions x watchdog)
    found = []
    stats = {"controlled": 0, "burst": 0, "burst-hooks-off": 0, "holds_effective": 0, "traces_checked": 0,
             "trace_events": 0, "requests_answered": 0, "slow_but_ok_on_rerun": 0}
    trace_fail, samples = [], []
    seen_sched = set()
    batch = 48
    workers = max(2, min(12, vlib.NCPU - 2))
    for b in range(0, len(sessions), batch):
        if len(found) >= 3:
            break
        chunk = sessions[b:b + batch]
        if any(c[2] is None for c in chunk):
            bindir_off = vlib.build_harness(False, bins=["lspdrive"])
            chunk = [(c[0], c[1], bindir_off if c[2] is None else c[2]) for c in chunk]
        outs = {}
        for bd in {c[2] for c in chunk}:
            idx = [i for i, c in enumerate(chunk) if c[2] == bd]
            res = sl.run_sessions(bd, [chunk[i][1]["script"] for i in idx], workers)
            for i, o in zip(idx, res):
                outs[i] = o
        lines, line_sess = [], []
        for i, (cls, s, bd) in enumerate(chunk):
            out = outs[i]
            stats[cls] += 1
            why = sl.session_failure(s["script"], out)
            if why is not None:
                # confirm with a longer watchdog (a loaded machine is not a deadlock)
                sc2 = json.loads(json.dumps(s["script"]))
                sc2["watchdog_ms"] = 15000
                sc2["hard_ms"] = 90000
                out2 = sl.run_session(bd, sc2)
                why2 = sl.session_failure(sc2, out2)
                if why2 is None:
                    stats["slow_but_ok_on_rerun"] += 1
                    out = out2
                else:
                    found.append({"class": cls, "name": s["name"], "script": s["script"], "observed": why2,
                                  "first_run": why, "threads_parked_at": sl.where_parked(out2),
                                  "hooks": bool(out2.get("hooks")), "log_tail": [e for e in out2.get("log", []) if e.get("ev") != "sync"][-12:]})
                    continue
            stats["requests_answered"] += sum(1 for e in out["log"] if e.get("ev") == "response" and e.get("id", 0) > 0)
            if effective(out):
                stats["holds_effective"] += 1
                seen_sched.add(s["name"])
            if out.get("hooks"):
                try:
                    items, events, info = sl.resolve_trace(out, s["script"])
                    lines.append(sl.trace_line(items, events))
                    line_sess.append((s, items, events))
                except sl.TraceError as ex:
                    trace_fail.append({"session": s["name"], "script": s["script"], "error": str(ex)})
            if len(samples) < 4 and (cls != "controlled" or effective(out)):
                samples.append({"class": cls, "name": s["name"], "steps": s["script"]["steps"][:8], "holds": s["script"]["holds"],
                                "responses": sum(1 for e in out["log"] if e.get("ev") == "response"),
                                "sync_events": sum(1 for e in out["log"] if e.get("ev") == "sync")})
        for (s, items, events), verdict in zip(line_sess, sl.model_lines(exe, "trace", lines)):
            stats["traces_checked"] += 1
            stats["trace_events"] += len(events)
            if verdict != "static=1 accepted final=1":
                old = sl.model_lines(exe, "trace", [sl.trace_line(items, events, old=True)])[0]
                pos = None
                if "pos=" in verdict:
                    pos = int(verdict.split("pos=")[1].split()[0])
                trace_fail.append({"session": s["name"], "script": s["script"], "model_verdict": verdict,
                                   "verdict_against_pre_fix_protocol": old, "items": items,
                                   "events_around": events[max(0, (pos or 0) - 6):(pos or 0) + 3]})

    # ---- the known finding of the async-lsp router: reproduced on every run, matched by its shape only
    known = vlib.known_keys("C08")
    psc, pout, pn, plimit, phow = concurrency_limit_probe(bindir)
    pwhy = sl.session_failure(psc, pout)
    probe = {"how": phow, "in_flight": pn, "limit": plimit, "observed": pwhy or "all answered"}
    if pwhy is not None:
        answered = sum(1 for e in pout["log"] if e.get("ev") == "response" and e.get("id", 0) > 0)
        shape = (not pout.get("crashed") and not pout.get("server_exited") and pn > plimit and bool(pout.get("unanswered"))
                 and pout.get("max_version") == 0 and not [e for e in pout["log"] if e.get("ev") == "panic"])
        probe["answered"] = answered
        if shape and KNOWN_KEY in known:
            ctx.known(KNOWN_KEY, "%d hover requests in flight with a concurrency limit of %d (%s): %d answered, then the async-lsp main loop "
                      "stalls for ever (dependency defect, outside the vfs/salsa lock protocol of C08_live) [%s]" % (pn, plimit, phow, answered, KNOWN_KEY))
        else:
            found.append({"class": "probe", "name": "requests over the concurrency limit: " + phow, "script": psc, "observed": pwhy,
                          "first_run": pwhy, "threads_parked_at": sl.where_parked(pout), "hooks": True,
                          "log_tail": [e for e in pout.get("log", []) if e.get("ev") != "sync"][-8:]})
    ctx.cov["known_finding_probe"] = probe

    # ---- verdict
    for f in found[:3]:
        ctx.violation("schedule '%s': %s" % (f["name"], f["observed"]),
                      {"property": "C08", "seed": ctx.seed, "kind": "schedule", "session": f["script"], "name": f["name"],
                       "observed": f["observed"], "threads_parked_at": f["threads_parked_at"], "hooks": f["hooks"],
                       "log_tail": f["log_tail"],
                       "expected": "every request answered and every notification processed (C08_live)"})
    if trace_fail:
        fails.append({"kind": "correspondence", "file": "hook-H2 traces of the real server vs the LTS of Sched.v (server_run trace)",
                      "count": len(trace_fail), "first": trace_fail[:2]})
    vlib.broken_ties_to_violations(ctx, fails, bool(found))

    # ---- evidence
    n = stats["controlled"] + stats["burst"] + stats["burst-hooks-off"]
    ctx.cov["evaluations"] = n
    ctx.cov["distinct_nontrivial"] = len(seen_sched)
    ctx.cov["rule"] = ("evaluations = sessions on the real server (controlled schedules + bursts with hooks + the same bursts "
                       "without hooks); a controlled schedule parks one thread at a hook point until another thread reaches "
                       "a given point (or %d ms pass); distinct_nontrivial = distinct controlled schedules in which the "
                       "parked thread was in fact released by the awaited event (the ordering was realised); "
                       "quick: every ordering 'task parked until the main loop holds the vfs write lock / is about to write "
                       "salsa inputs' for every request kind and the diagnostics task + a seeded sample of the rest; "
                       "thorough: all %d one-task and diagnostics-task orderings + 400 two-task ones" % (HOLD_MS, len(one) + len(dg)))
    ctx.cov["input_distribution"] = dict(stats, schedules_available={"one_task": len(one), "diagnostics_task": len(dg)})
    ctx.cov["traces_validated_against_impl"] = stats["traces_checked"]
    ctx.cov["trace_inclusion_failures"] = len(trace_fail)
    ctx.cov["samples"] = samples
    ctx.cov["timing_s"] = {"setup_and_proof": round(t_setup, 1), "total": round(time.time() - t0, 1)}
    ctx.assumptions = [
        "a schedule is explored through hook points only: orderings inside salsa / std / tokio between two hook points are left to the OS",
        "a hold gives up after %d ms, so an ordering that the lock protocol forbids is observed as 'released by timeout', not forced" % HOLD_MS,
        "requests are sent for documents that were opened (a request for an unknown document panics in from_proto: C03)",
    ]


def replay(ctx, path):
    r = json.load(open(path))
    if "session" not in r:
        print(json.dumps(r, indent=1)[:4000])
        print("replay: this file names a broken proof obligation / tie, not a schedule; re-run ./check C08")
        return 1
    hooks = r.get("hooks", True)
    bindir = vlib.build_harness(hooks, bins=["lspdrive"])
    sc = r["session"]
    sc["watchdog_ms"] = 15000
    sc["hard_ms"] = 90000
    out = sl.run_session(bindir, sc)
    why = sl.session_failure(sc, out)
    print("schedule  :", r.get("name"))
    print("steps     :", json.dumps(sc["steps"]))
    print("holds     :", json.dumps(sc.get("holds")))
    print("expected  : every request answered, every notification processed")
    print("recorded  :", r.get("observed"))
    print("now       :", why or "all answered")
    print("threads at:", json.dumps(sl.where_parked(out)))
    if out.get("hooks") and not out.get("crashed"):
        try:
            exe = vlib.build_model("server")
            items, events, _ = sl.resolve_trace(out, sc)
            print("model     :", sl.model_lines(exe, "trace", [sl.trace_line(items, events)])[0],
                  "| pre-fix protocol:", sl.model_lines(exe, "trace", [sl.trace_line(items, events, old=True)])[0])
        except Exception as ex:     # noqa
            print("model     : trace not resolvable:", ex)
    if why:
        print("VIOLATION property=C08 replay=%s" % path)
        return 1
    print("replay: the server now answers everything under this schedule")
    return 0
