"""C20 Completion vocabulary is closed under the server's own lexer and parser.

Proof: TG.Props.C20 (+ TG.Props.C20Known for the refutations of known finding D20) over tables regenerated
from the current source: completion vocabularies and dispatch (t_completion), lexer tables (t_lextables),
token kinds and the T! spelling macro (t_tokens), the grammar program (t_grammar), the ast enums (t_ast).
Tie: (T) the translators; cross-checked here against the REAL completion lists (Analysis::completion through
the harness `idedump`) and the real lexer (`lexdump`); (C) the extracted completion model `compl_run` against the
real completion at every offset of generated workspaces, the lexer model against the real lexer on every
offered word, the parser model against the real parser on the statement witnesses.
Oracle (implementation side, independent of the model): every offered word re-lexed by the real lexer, every
offered statement keyword re-parsed by the real parser, every operator the real lexer accepts looked up in
the real completion list, and at every parent-class position of generated workspaces the real completion
list compared with the generator's class table (one tab stop per template parameter)."""
import json
import os
import sys

import vlib
import complib as L
import grammarlib as G

sys.path.insert(0, os.path.join(vlib.VERIF, "tools", "translate"))

THEOREMS = ["C20_keywords_lex", "C20_keywords_start", "C20_offered_lexes_outside_known",
            "C20_lexed_offered_outside_known", "C20_lexer_table_offered_outside_known",
            "C20_classes", "C20_classes_trigger", "C20_class_placeholders", "C20_class_item"]
SM_THEOREMS = ["C20_sm_classes_exact", "C20_sm_completion", "C20_sm_placeholders"]
KNOWN_THEOREMS = ["C20_offered_lexes_refuted", "C20_lexed_offered_refuted",
                  "C20_known_offered_not_lexed_real", "C20_known_lexed_not_offered_real"]
TRANSLATORS = ["t_tokens", "t_lextables", "t_grammar", "t_ast", "t_completion", "t_handlers"]
SOURCE_THEOREMS = ["C20_dispatch_is_source"]    # group outline: props/CompletionSource.v (design/notes-translator-handlers.md)
# class clause end to end over the models (group symmap, props/C20Pipeline.v): its cone also needs these generated files
PIPELINE_THEOREMS = ["C20_core_classes", "C20_pipeline_classes", "C20_pipeline_nonvacuous"]
PIPELINE_TRANSLATORS = ["t_unicode", "t_grammarcert", "t_foldkinds"]
TRUSTED = [
    "Coq 8.16.1 kernel incl. vm_compute (finite-domain lemmas `forallb ... = true` over the complete generated tables, lifted with forallb_forall)",
    "translators t_completion / t_lextables / t_tokens / t_grammar / t_ast (each cross-checked on every run: real completion lists vs GenCompletion, "
    "real lexer vs lexer model on every offered word and every table row, real parser vs parser model on the statement witnesses)",
    "hand models Lexer.v (lexer.rs), ParserPrims.v/GInterp.v (parser.rs), Completion.v (completion.rs exec / complete_classes); "
    "rowan token_at_offset(..).left_biased() modelled as: first non-empty leaf whose closed range contains the offset",
    "`dec` = Rust Display for usize (decimal, no leading zeros); LSP snippet tab stops read as `$n` / `${n}`",
    "class symbols: the theorems quantify over an abstract list of (name, template-argument count); that the indexer's class table is "
    "'the classes of the workspace' is checked by the oracle on generated workspaces only (indexer models belong to C05/C06)",
    "extraction (ExtrOcamlBasic), compl_driver.ml, harness idedump.rs / lexdump.rs / parsedump.rs, lib/complib.py",
]

# candidate operator names probed against the REAL lexer in addition to the lexer table rows: the TableGen
# reference's bang operators (LLVM 14-19) and a few near misses.  Any of them the real lexer accepts must be offered.
PROBE_OPS = """add and cast con cond dag div empty eq exists filter find foldl foreach ge getdagarg getdagname getdagop getop gt head if
initialized interleave isa le listconcat listflatten listremove listsplat logtwo log2 lt mul ne not or range repr setdagarg
setdagname setdagop setop shl size sra srl strconcat sub subst substr tail tolower toupper xor concat match instances
sort listflatten""".split()

CONTEXT_PROBES = {   # (text, offset from end) reproducing the four snapshot contexts
    "keywords": "c",
    "types": "class Foo<i",
    "values": "class Foo<int a = t",
    "bang": "!",
}


def idedump(bindir, workspaces):
    return L.run_json(os.path.join(bindir, "idedump"), workspaces)


def ws_single(text, offsets):
    return {"files": [["a.td", text]], "root": "a.td", "offsets": [["a.td", o] for o in offsets],
            "hint_ranges": [], "completion": True}


def comp_at(res, path, off):
    runs = res["at"][path]
    e = L.expand_runs(runs, [off])[off]
    return e.get("comp"), e.get("compbang")


def real_vocabularies(bindir):
    wss = [ws_single(t, [len(t)]) for t in CONTEXT_PROBES.values()]
    out = idedump(bindir, wss)
    voc = {}
    for (name, text), r in zip(CONTEXT_PROBES.items(), out):
        if "panic" in r:
            raise vlib.BuildError("idedump panicked on %r: %s" % (text, r["panic"]))
        comp, compbang = comp_at(r, "a.td", len(text))
        voc[name] = (comp, compbang)
    kw = voc["keywords"][0] or []
    ty = voc["types"][0] or []
    va = voc["values"][0] or []
    c0, c1 = voc["bang"]
    c0, c1 = c0 or [], c1 or []
    bang = c1[:len(c1) - len(c0)] if c1[len(c1) - len(c0):] == c0 else c1
    # the trigger must not change the non-bang part, and without the trigger no operator is offered
    return {"keywords": kw, "types": ty, "values": va, "bang": bang, "bang_context_rest": c0}


def lexdump(bindir, words):
    return L.run_json(os.path.join(bindir, "lexdump"), words)


def single_token(r, word):
    """lexdump result -> kind name when the word is exactly one token followed by Eof, else None"""
    if "tokens" not in r:
        return None, "panic"
    toks = r["tokens"]
    if len(toks) == 2 and toks[0][1] == 0 and toks[0][2] == len(word.encode()) and toks[1][0] == "Eof" and toks[0][3] is None:
        return toks[0][0], None
    return None, toks


def model_tok_line(r, tk_index):
    if "tokens" not in r:
        return "PANIC"
    return " ".join("%d:%d:%s" % (tk_index[k], e - s, "-" if err is None else err.replace(" ", "_")) for k, s, e, err in r["tokens"])


def run(ctx):
    import t_tokens, t_lextables, t_completion, t_ast
    bindir = vlib.build_harness(False, bins=["idedump", "lexdump", "parsedump", "compsession"])
    fails = vlib.proof_step(ctx, "TG.Props.C20", THEOREMS, ["props/C20.vo"], TRUSTED, translators=TRANSLATORS + PIPELINE_TRANSLATORS)
    fails = G.own_failures(fails, ["props/C20.vo"])
    rsm = vlib.prove("TG.Props.C20SM", SM_THEOREMS, ["props/C20SM.vo"])
    fails += G.own_failures(rsm["failures"], ["props/C20SM.vo"])
    ctx.cov["obligations"] = ctx.cov.get("obligations", 0) + rsm["obligations"]
    ctx.cov["discharged"] = ctx.cov.get("discharged", 0) + rsm["discharged"]
    ctx.cov["theorems"] = list(ctx.cov.get("theorems", [])) + SM_THEOREMS
    ctx.cov.setdefault("axioms_per_theorem", {}).update(rsm["assumptions"])
    rp = vlib.prove("TG.Props.C20Pipeline", PIPELINE_THEOREMS, ["props/C20Pipeline.vo"])
    fails += G.own_failures(rp["failures"], ["props/C20Pipeline.vo"])
    ctx.cov["obligations"] = ctx.cov.get("obligations", 0) + rp["obligations"]
    ctx.cov["discharged"] = ctx.cov.get("discharged", 0) + rp["discharged"]
    ctx.cov["theorems"] = list(ctx.cov.get("theorems", [])) + PIPELINE_THEOREMS
    ctx.cov.setdefault("axioms_per_theorem", {}).update(rp["assumptions"])
    # the BODY of completion.rs `exec` rendered by t_handlers.py (GenHandlersCompletion.v) == Completion.completion_model
    rs = vlib.prove("TG.Props.CompletionSource", SOURCE_THEOREMS, ["props/CompletionSource.vo"])
    fails += G.own_failures(rs["failures"], ["props/CompletionSource.vo"])
    ctx.cov["obligations"] = ctx.cov.get("obligations", 0) + rs["obligations"]
    ctx.cov["discharged"] = ctx.cov.get("discharged", 0) + rs["discharged"]
    ctx.cov["theorems"] = list(ctx.cov.get("theorems", [])) + SOURCE_THEOREMS
    ctx.cov.setdefault("axioms_per_theorem", {}).update(rs["assumptions"])
    ctx.cov["trusted_base"] = list(ctx.cov.get("trusted_base", [])) + [
        "props/C20Pipeline.v (group symmap; design/notes-indexer-bridge.md): the class clause composed with group scope's indexer model and "
        "builder bridge's pipeline: offered classes = classes declared in the CoreAst (ClassVisit.declared_classes, last declaration wins); "
        "trusted there: Indexer.v + IndexerOps.absN = index.rs + symbol_map.rs (checked state equality incl. name_to_class / name_to_def and the "
        "declared-class specification vs the real op log: checks/C06.py, evidence bridge_to_indexer_model)"]
    rk = vlib.prove("TG.Props.C20Known", KNOWN_THEOREMS, ["props/C20Known.vo"])
    known_fails = G.own_failures(rk["failures"], ["props/C20Known.vo"])
    ctx.cov["known_finding_theorems"] = {"module": "TG.Props.C20Known", "theorems": KNOWN_THEOREMS,
                                         "discharged": rk["discharged"], "axioms_per_theorem": rk["assumptions"]}
    try:
        exe = vlib.build_model("compl")
    except vlib.BuildError as ex:
        exe = None
        fails.append({"kind": "model-build", "file": "extraction of M-completion", "error": str(ex)[-1500:]})
    known = vlib.known_keys("C20")
    found = False
    evals = 0
    nontrivial = set()
    samples = []

    tok = t_tokens.parse(vlib.REPO)
    T = {t_completion.spelling_text(k): v for k, v in tok["T"].items()}
    tk_index = {k: i for i, k in enumerate(tok["tks"])}
    opkinds = set(tok["bang"]) | set(tok["cond"])
    try:
        lexer_bang = dict(t_lextables.parse(vlib.REPO)["bang"])
    except Exception:
        lexer_bang = {}
    try:
        stmt_kinds = set(t_ast.parse(vlib.REPO)["enums"]["Statement"])
    except Exception:
        stmt_kinds = {"Include", "Assert", "Class", "Def", "Defm", "Defset", "Defvar", "Dump", "Foreach", "If", "Let", "MultiClass"}

    # ------------------------------------------------------------------ real vocabularies, translator cross-check
    voc = real_vocabularies(bindir)
    try:
        tr = t_completion.parse(vlib.REPO)
        tv = tr["vocab"]
        pairs = [("keywords", "complete_toplevel_keywords"), ("types", "complete_primitive_types"),
                 ("values", "complete_primitive_values"), ("bang", "complete_bang_operators")]
        for a, b in pairs:
            want = [[l, s, k] for (l, s, k) in tv[b]]
            if voc[a] != want:
                fails.append({"kind": "correspondence", "file": "t_completion table %s differs from the real completion list" % b,
                              "real": voc[a], "translated": want})
    except Exception as ex:
        pass    # already recorded by proof_step as a translator failure

    kw_words = [i[0] for i in voc["keywords"]]
    ty_words = [i[0] for i in voc["types"]]
    va_words = [i[0] for i in voc["values"]]
    bang_words = [i[0] for i in voc["bang"]]
    ctx.cov["vocabulary_sizes"] = {"keywords": len(kw_words), "types": len(ty_words), "values": len(va_words),
                                   "bang_operators": len(bang_words), "lexer_bang_table": len(lexer_bang)}

    # ------------------------------------------------------------------ oracle 1: offered keywords / types / values lex as that token
    words = kw_words + ty_words + va_words
    lx = lexdump(bindir, words)
    for w, r, cls in zip(words, lx, ["keyword"] * len(kw_words) + ["type"] * len(ty_words) + ["value"] * len(va_words)):
        evals += 1
        kind, other = single_token(r, w)
        want = T.get(w)
        ok = kind is not None and kind not in ("Id", "Error") and want is not None and kind == want
        nontrivial.add(("lex", w))
        if not ok:
            found = True
            ctx.violation("C20 offered %s %r is not recognised by the lexer as that %s token (lexer: %s, T![%s] = %s)" % (
                cls, w, cls, kind or other, w, want),
                {"property": "C20", "kind": "lex-word", "class": cls, "word": w, "lexer": r, "expected_kind": want, "seed": ctx.seed})

    # ------------------------------------------------------------------ oracle 2: offered bang operators lex as operators
    lb = lexdump(bindir, ["!" + o for o in bang_words])
    for o, r in zip(bang_words, lb):
        evals += 1
        kind, other = single_token(r, "!" + o)
        want = T.get("!" + o)
        ok = kind is not None and kind in opkinds and (want is None or want == kind)
        nontrivial.add(("bang", o))
        if not ok:
            key = "offered-not-lexed:" + o
            if key in known:
                ctx.known(key, "key=%s %s" % (key, known[key].split(" ", 1)[1] if " " in known[key] else known[key]))
            else:
                found = True
                ctx.violation("C20 offered bang operator %r: the lexer does not recognise !%s as that operator (lexer: %s)" % (o, o, kind or other),
                              {"property": "C20", "kind": "bangop-offered", "op": o, "lexer": r, "expected_kind": want, "seed": ctx.seed})

    # ------------------------------------------------------------------ oracle 3: operators the real lexer accepts are offered
    cands = sorted(set(lexer_bang) | set(PROBE_OPS) | {k[1:] for k in T if k.startswith("!")} | set(bang_words))
    lc = lexdump(bindir, ["!" + o for o in cands])
    accepted = []
    for o, r in zip(cands, lc):
        evals += 1
        kind, other = single_token(r, "!" + o)
        if kind is not None and kind in opkinds:
            accepted.append(o)
            if o not in bang_words:
                key = "lexed-not-offered:" + o
                if key in known:
                    ctx.known(key, "key=%s %s" % (key, known[key].split(" ", 1)[1] if " " in known[key] else known[key]))
                else:
                    found = True
                    ctx.violation("C20 the lexer accepts !%s as %s but the completion after `!` does not offer %r" % (o, kind, o),
                                  {"property": "C20", "kind": "bangop-lexed", "op": o, "lexer": r, "offered": bang_words, "seed": ctx.seed})
        if o in lexer_bang and (kind is None or kind != lexer_bang[o]):
            fails.append({"kind": "correspondence", "file": "t_lextables bang-operator row %r => %s is not what the real lexer does (%s)" % (o, lexer_bang[o], kind or other)})
    ctx.cov["lexer_accepted_operators"] = len(accepted)

    # ------------------------------------------------------------------ oracle 4: offered statement keywords start an accepted statement
    wit = dict(t_completion.STATEMENT_WITNESS)
    tails = sorted({v[len(k):] for k, v in wit.items()} | {";", " A;", " A { }", ' "s";', " 1;"})
    stmt_inputs = []
    for w in kw_words:
        if w in wit:
            stmt_inputs.append((w, wit[w]))
        else:
            for tl in tails:
                stmt_inputs.append((w, w + tl))
            stmt_inputs.append((w, w))
    pr = L.run_json(os.path.join(bindir, "parsedump"), [s for _, s in stmt_inputs])

    def stmt_ok(w, src, r):
        if "tree" not in r or r["errors"]:
            return False
        root = r["tree"]
        sl = [c for c in root[4] if c[0] == "N" and c[1] == "StatementList"]
        if not sl:
            return False
        st = [c for c in sl[0][4] if c[0] == "N"]
        if not st or st[0][1] not in stmt_kinds:
            return False
        lv = L.leaves_with_ancestors(st[0])
        return bool(lv) and src.encode()[lv[0][1]:lv[0][2]].decode() == w
    by_kw = {}
    for (w, src), r in zip(stmt_inputs, pr):
        evals += 1
        by_kw.setdefault(w, []).append((src, r, stmt_ok(w, src, r)))
    for w in kw_words:
        nontrivial.add(("stmt", w))
        if not any(ok for _, _, ok in by_kw[w]):
            src, r, _ = by_kw[w][-1] if w not in wit else by_kw[w][0]
            found = True
            ctx.violation("C20 offered statement keyword %r does not start a statement the parser accepts (input %r: errors %s)" % (
                w, src, r.get("errors")), {"property": "C20", "kind": "keyword-start", "keyword": w, "input": src,
                                           "tried": [s for s, _, _ in by_kw[w]], "parser": r, "seed": ctx.seed})

    # ------------------------------------------------------------------ correspondence: lexer model / parser model on the same words
    if exe:
        allw = words + ["!" + o for o in bang_words] + ["!" + o for o in cands]
        allr = lx + lb + lc
        ml = L.run_model(exe, "lex", [L.codes(w) for w in allw])
        bad = [(w, m.split(" ; ")[0], model_tok_line(r, tk_index)) for w, m, r in zip(allw, ml, allr)
               if m.split(" ; ")[0] != model_tok_line(r, tk_index)]
        if bad:
            fails.append({"kind": "correspondence", "file": "lexer model vs real lexer on %r: model %s, real %s" % bad[0]})
        ms = L.run_model(exe, "stmt", ["%s %s" % (L.codes(w), L.codes(src)) for w, src in stmt_inputs])
        for (w, src), m, r in zip(stmt_inputs, ms, pr):
            want = "accepted=%d errors=%s" % (1 if stmt_ok(w, src, r) else 0, len(r["errors"]) if "errors" in r else "PANIC")
            if m != want:
                fails.append({"kind": "correspondence", "file": "parser model vs real parser on %r: model %s, real %s" % (src, m, want)})
                break
        # the model's view of the generated tables (extraction cross-check)
        tb = {l.split(" ", 1)[0]: l.split(" ", 1)[1] if " " in l else "" for l in L.run_model(exe, "tables", [])}
        for name, ws_ in (("keywords", kw_words), ("types", ty_words), ("values", va_words), ("bangops", bang_words)):
            got = [L.uncodes(x) for x in tb.get(name, "").split()]
            if got != ws_:
                fails.append({"kind": "correspondence", "file": "extracted table %s differs from the real completion list" % name})

    # ------------------------------------------------------------------ generated workspaces: dispatch correspondence + class oracle
    nws = 40 if ctx.quick else 400
    gen = L.Gen(ctx.rng)
    wss, metas = [], []
    fixed = [("c", {}), ("class Foo<i", None), ("class Foo<int a>; class Bar : Foo;", {"Foo": 1, "Bar": 0}),
             ("class Foo<int a = t", None), ("!", {}), ("class A<int x, int y>; def d : A<1, 2>;", {"A": 2}),
             ("class A; class B<int p> : A; defm m : B<1>;", {"A": 0, "B": 1})]
    for text, table in fixed:
        wss.append({"files": [["root.td", text]], "root": "root.td", "hint_ranges": [], "completion": True})
        metas.append({"table": table, "outside": {}, "truncated": table is None})
    for i in range(nws):
        if i % 4 == 3:
            gen.n = ctx.rng.randint(0, 6)       # class names C1.. reused across workspaces of the same process with other parameter counts
        files, root, table, outside = gen.workspace()
        trunc = ctx.rng.random() < 0.25
        if trunc:
            files = [list(f) for f in files]
            rt = [f for f in files if f[0] == root][0]
            rt[1] = rt[1][:ctx.rng.randint(0, len(rt[1]))]
        wss.append({"files": files, "root": root, "hint_ranges": [], "completion": True})
        metas.append({"table": None if trunc else table, "outside": outside, "truncated": trunc})
    res = idedump(bindir, wss)
    # real trees of every workspace file
    texts, owner = [], []
    for wi, (ws, r) in enumerate(zip(wss, res)):
        if "panic" in r:
            continue
        for p in r["workspace"]:
            texts.append(dict(ws["files"])[p])
            owner.append((wi, p))
    trees = L.run_json(os.path.join(bindir, "parsedump"), texts)
    tree_of = {o: t for o, t in zip(owner, trees)}
    sk_index = {k: i for i, k in enumerate(tok["sks"])}
    import treeio
    model_lines, model_keys = [], []
    ctx_hist = {}
    parent_positions = 0
    pc_positions = {}
    class_viol = None
    disp_viol = None
    for wi, (ws, r, meta) in enumerate(zip(wss, res, metas)):
        if "panic" in r:
            found = True
            ctx.violation("C20 completion panicked: %s" % r["panic"], {"property": "C20", "kind": "panic", "workspace": ws, "seed": ctx.seed})
            continue
        table = meta["table"]
        for p in r["workspace"]:
            text = dict(ws["files"])[p]
            tr_ = tree_of[(wi, p)]
            if "tree" not in tr_:
                continue
            tb_ = text.encode()
            offs = [o for o in range(len(tb_) + 1) if o == len(tb_) or (tb_[o] & 0xC0) != 0x80]
            per = L.expand_runs(r["at"][p], offs)
            lv = L.leaves_with_ancestors(tr_["tree"])
            cls_field = " ".join("%s:%d" % (L.codes(n), k) for n, k in sorted((table or {}).items()))
            tline = treeio.tree_line(tr_["tree"], tb_, sk_index)
            for trig in (0, 1):
                model_lines.append("%d ; %s ; %s ; %s" % (trig, cls_field, " ".join(map(str, offs)), tline))
                model_keys.append((wi, p, trig, offs))
            for o in offs:
                evals += 1
                e = per[o]
                comp = e.get("comp")
                tk = L.token_left_of(lv, o)
                gp = tk[3][1] if tk and len(tk[3]) >= 2 else None
                ctx_hist[gp or "-"] = ctx_hist.get(gp or "-", 0) + 1
                if comp:
                    nontrivial.add((wi, p, o))
                # ---- class oracle: parent-class position = the token left of the cursor is the name of a ClassRef
                if tk and tk[0] == "Id" and tk[3][:2] == ["Identifier", "ClassRef"]:
                    pc_positions.setdefault((wi, p), []).append(o)
                if table is not None and tk and tk[0] == "Id" and tk[3][:2] == ["Identifier", "ClassRef"]:
                    parent_positions += 1
                    got = sorted((i[0], i[1], i[2]) for i in (comp or []))
                    bad = None
                    if comp is None:
                        bad = "no completion list"
                    elif sorted(i[0] for i in comp) != sorted(table):
                        bad = "labels %s, classes of the workspace %s" % (sorted(i[0] for i in comp), sorted(table))
                    else:
                        for lab, snip, kind in comp:
                            stops = [x for x in L.snippet_tabstops(snip or "")] if snip is not None else None
                            nz = [x for x in (stops or []) if x != 0]
                            if kind != "Class" or snip is None or not snip.startswith(lab) or len(nz) != table[lab] or len(set(nz)) != len(nz):
                                bad = "class %s with %d template parameter(s): item %r" % (lab, table[lab], [lab, snip, kind])
                                break
                    if bad and class_viol is None:
                        class_viol = (ws, p, o, bad, comp, table)
    if class_viol:
        ws, p, o, bad, comp, table = class_viol
        found = True
        ctx.violation("C20 class completion in a parent-class position: " + bad,
                      {"property": "C20", "kind": "classes", "workspace": ws, "file": p, "offset": o, "detail": bad,
                       "completion": comp, "classes_of_workspace": table, "seed": ctx.seed})
    # ---- correspondence with the extracted model (exec dispatch + complete_classes) at every offset, with and without trigger
    ties = 0
    compared = 0
    if exe:
        mo = L.run_model(exe, "comp", model_lines)
        for (wi, p, trig, offs), line in zip(model_keys, mo):
            per = L.expand_runs(res[wi]["at"][p], offs)
            parts = line.split(" ; ")
            for o, part in zip(offs, parts):
                real = per[o].get("compbang" if trig else "comp")
                part = part.strip()
                if part == "NONE":
                    model = None
                else:
                    model = []
                    for it in part.split()[1:]:
                        l, s, k = it.split("|")
                        model.append([L.uncodes(l), None if s == "null" else L.uncodes(s), k])
                compared += 1
                table = metas[wi]["table"]

                def proj(items):
                    if items is None:
                        return None
                    fixed_ = [i for i in items if i[2] != "Class"]
                    cls = sorted(i for i in items if i[2] == "Class")
                    return (fixed_, cls if table is not None else bool(cls))
                pm = proj(model)
                if table is None and model is not None:
                    # class table unknown (truncated text): compare only whether class items are expected at all
                    lv_gp_classes = any(True for _ in [0] if False)
                    tk = L.token_left_of(L.leaves_with_ancestors(tree_of[(wi, p)]["tree"]), o)
                    is_cr = bool(tk and len(tk[3]) >= 2 and tk[3][1] == "ClassRef")
                    pm = (pm[0], None)
                    pr_ = proj(real)
                    pr_ = None if pr_ is None else (pr_[0], None)
                    if real is not None and not is_cr and any(i[2] == "Class" for i in real):
                        pr_ = (pr_[0], "unexpected class items")
                else:
                    pr_ = proj(real)
                if pm != pr_:
                    ties += 1
                    if disp_viol is None:
                        disp_viol = (wss[wi], p, o, trig, real, model)
    # ------------------------------------------------------------------ symbol-table tie (C20_sm_*): replay the REAL op log (hook H3) of every
    # generated workspace in the symbol-map model, run complete_classes / exec of the model on the resulting state and the real tree,
    # compare with the real completion at every parent-class position
    sm_compared = sm_ties = sm_ops = 0
    if exe:
        try:
            hb = vlib.build_harness(True, bins=["compsym"])
            sws, skeys = [], []
            for wi, ws in enumerate(wss):
                offs = [[p, o] for (w2, p), os_ in pc_positions.items() if w2 == wi for o in os_]
                if offs and "panic" not in res[wi]:
                    sws.append({"files": ws["files"], "root": ws["root"], "offsets": offs})
                    skeys.append(wi)
            sres_ = L.run_json(os.path.join(hb, "compsym"), sws) if sws else []
            lines, lkeys = [], []
            for wi, ws, r in zip(skeys, sws, sres_):
                if "panic" in r or r.get("oplog") is None:
                    fails.append({"kind": "correspondence", "file": "compsym: no op log (hook H3) for a workspace: %s" % str(r)[:200]})
                    break
                sm_ops += len(r["oplog"])
                ops = " || ".join("OP " + " ".join(L.encode_op(l)) for l in r["oplog"])
                byfile = {}
                for p, o, items in r["comp"]:
                    byfile.setdefault(p, []).append((o, items))
                for p, lst in byfile.items():
                    text = dict(ws["files"])[p]
                    tline = treeio.tree_line(tree_of[(wi, p)]["tree"], text.encode(), sk_index)
                    lines.append("%s || T %s || Q %s" % (ops, tline, " ".join(str(o) for o, _ in lst)))
                    lkeys.append((wi, p, lst))
            for (wi, p, lst), out in zip(lkeys, L.run_model(exe, "symcomp", lines)):
                parts = out.split(" ; ")
                if out.startswith("ERR") or len(parts) != len(lst) + 1:
                    sm_ties += 1
                    fails.append({"kind": "correspondence", "file": "symbol-map model does not replay the real op log: %s" % out[:200]})
                    break
                mcls = sorted((L.uncodes(x.split(":")[0]), int(x.split(":")[1])) for x in parts[0].split()[1:])
                table = metas[wi]["table"]
                if table is not None and mcls != sorted(table.items()):
                    sm_ties += 1
                    fails.append({"kind": "correspondence", "file": "class symbols of the replayed symbol map %s differ from the generator's class table %s" % (mcls, sorted(table.items()))})
                for (o, real), part in zip(lst, parts[1:]):
                    sm_compared += 1
                    model = L.parse_items(part) if not part.startswith("ERR") else "ERR"
                    if model == "ERR" or (model is None) != (real is None) or (model is not None and sorted(map(tuple, model)) != sorted(map(tuple, real))):
                        sm_ties += 1
                        if sm_ties == 1:
                            fails.append({"kind": "correspondence", "file": "completion over the replayed symbol map differs from Analysis::completion "
                                          "(file %s offset %d): model %s, real %s" % (p, o, str(model)[:300], str(real)[:300])})
        except vlib.BuildError as ex:
            fails.append({"kind": "model-build", "file": "harness bin compsym (hooks on)", "error": str(ex)[-800:]})
    ctx.cov["symbol_map_positions_compared"] = sm_compared
    ctx.cov["symbol_map_ops_replayed"] = sm_ops
    ctx.cov["symbol_map_disagreements"] = sm_ties

    # ------------------------------------------------------------------ oracle 5: after a `!` (trigger) every accepted operator is offered,
    # whatever follows the cursor (fixed contexts + every `!` of the generated workspaces)
    bang_ctx = []
    for text in ("!", "!foo", "!size(xs)", "!n", "class A { int a = !n; }", "defvar v = !add(1, 2);", "class A { int a = !; }", "def d : B<!lt(1, 2)>;",
                 "// caf\u00e9\n!", "class A { string s = \"\u65e5\u672c\"; int a = !n; }", "/* \U0001F600 */ defvar v = !add(1, 2);", "// \u00e9\ndef d : B<!lt(1, 2)>;"):
        tbytes = text.encode()
        for o in range(len(tbytes)):
            if tbytes[o] == 0x21:
                bang_ctx.append(({"files": [["root.td", text]], "root": "root.td", "offsets": [["root.td", o + 1]], "hint_ranges": [], "completion": True}, "root.td", o + 1))
    rb = idedump(bindir, [w for w, _, _ in bang_ctx])
    after_bang = [(w, p, o, comp_at(r, p, o)[1]) for (w, p, o), r in zip(bang_ctx, rb) if "panic" not in r]
    for wi, (ws, r) in enumerate(zip(wss, res)):
        if "panic" in r:
            continue
        for p in r["workspace"]:
            tb_ = dict(ws["files"])[p].encode()
            offs = [o + 1 for o in range(len(tb_)) if tb_[o] == 0x21]
            if offs:
                per = L.expand_runs(r["at"][p], offs)
                for o in offs:
                    after_bang.append((ws, p, o, per[o].get("compbang")))
    bang_viol = None
    for ws, p, o, cb in after_bang:
        evals += 1
        labels = [i[0] for i in (cb or []) if i[2] == "Keyword"]
        missing = [x for x in accepted if x not in labels and ("lexed-not-offered:" + x) not in known]
        if missing and (bang_viol is None or len(json.dumps(ws)) < len(json.dumps(bang_viol[0]))):
            bang_viol = (ws, p, o, missing, cb)
    if bang_viol:
        ws, p, o, missing, cb = bang_viol
        found = True
        ctx.violation("C20 after `!` (offset %d of %r, trigger `!`) the operators %s, which the lexer accepts, are not offered" % (
            o, dict(ws["files"])[p], missing[:6]),
            {"property": "C20", "kind": "after-bang", "workspace": ws, "file": p, "offset": o, "missing": missing,
             "completion": cb, "seed": ctx.seed})
    ctx.cov["after_bang_positions"] = len(after_bang)

    # ------------------------------------------------------------------ oracle 6: sessions (one AnalysisHost, edits between completion requests;
    # all sessions in ONE process): class items follow the CURRENT text
    nsess = 12 if ctx.quick else 120
    pool = ["Base", "Mid", "Leaf", "K1", "K2"]
    sessions, expects = [], []
    for si in range(nsess):
        steps, exp = [], []
        for ei in range(ctx.rng.randint(2, 5)):
            names = ctx.rng.sample(pool, ctx.rng.randint(1, 4))
            table, parts = {}, []
            for nm in names:
                k = ctx.rng.choice([0, 1, 2, 3, 4])
                table[nm] = k
                parts.append("class %s%s;" % (nm, gen.params(k)))
            tgt = ctx.rng.choice(names)
            text = " ".join(parts) + " def Z%d : %s" % (ei, tgt)
            off = len(text.encode())
            text += ctx.rng.choice([";", "<>;", " { }"])
            steps.append({"set": ["s.td", text]})
            steps.append({"complete": ["s.td", off, None]})
            exp.append((text, off, table))
        sessions.append({"files": [], "steps": steps})
        expects.append(exp)
    sres = L.run_json(os.path.join(bindir, "compsession"), sessions)
    sess_viol = None
    sess_steps = 0
    for sess, exp, r in zip(sessions, expects, sres):
        if isinstance(r, dict):
            found = True
            ctx.violation("C20 completion session panicked: %s" % r.get("panic"), {"property": "C20", "kind": "session", "session": sess, "seed": ctx.seed})
            continue
        for stepi, ((text, off, table), comp) in enumerate(zip(exp, r)):
            evals += 1
            sess_steps += 1
            nontrivial.add(("session", text))
            bad = None
            if comp is None or sorted(i[0] for i in comp) != sorted(table):
                bad = "labels %s, classes of the current text %s" % (sorted(i[0] for i in comp or []), sorted(table))
            else:
                for lab, snip, kind in comp:
                    nz = [x for x in L.snippet_tabstops(snip or "") if x != 0]
                    if kind != "Class" or snip is None or not snip.startswith(lab) or len(nz) != table[lab] or len(set(nz)) != len(nz):
                        bad = "class %s has %d template parameter(s) in the current text: item %r" % (lab, table[lab], [lab, snip, kind])
                        break
            if bad and sess_viol is None:
                sess_viol = ({"files": [], "steps": sess["steps"][:2 * stepi + 2]}, stepi, bad, comp, table)
    if sess_viol:
        sess, stepi, bad, comp, table = sess_viol
        found = True
        ctx.violation("C20 class completion after %d edit(s) in one session: %s" % (stepi, bad),
                      {"property": "C20", "kind": "session", "session": sess, "step": stepi, "detail": bad, "completion": comp,
                       "classes_of_workspace": table, "seed": ctx.seed})
    ctx.cov["session_steps"] = sess_steps

    if disp_viol and not found:
        ws, p, o, trig, real, model = disp_viol
        fails.append({"kind": "correspondence", "file": "completion model vs Analysis::completion (%d offsets differ)" % ties})
        ctx.violation("C20 correspondence broken: completion model and Analysis::completion differ (file %s offset %d trigger %s)" % (p, o, bool(trig)),
                      {"property": "C20", "kind": "dispatch", "broken": "correspondence M-completion (Completion.v + GenCompletion.v) vs handlers/completion.rs",
                       "workspace": ws, "file": p, "offset": o, "trigger": bool(trig), "implementation": real, "model": model,
                       "disagreeing_offsets": ties, "seed": ctx.seed}, no_failing_input=True)
        found = True


    # ------------------------------------------------------------------ known-finding theorems
    if known_fails:
        # the refutations no longer check: a broken tie only if the real code still shows every known discrepancy
        still = all(("offered-not-lexed:" + o in ctx.known_hit) for o in ("concat", "log2")) and \
            all(("lexed-not-offered:" + o in ctx.known_hit) for o in ("con", "cond", "initialized", "listflatten", "repr", "logtwo"))
        ctx.cov["known_finding_theorems"]["failures"] = known_fails
        if still:
            fails += known_fails
        else:
            ctx.cov["known_finding_theorems"]["note"] = ("a known discrepancy of D20 no longer reproduces on the real code; "
                                                         "the refutation theorems are stale (not a violation of C20)")
    missing = [k for k in known if k not in ctx.known_hit]
    ctx.cov["known_findings_not_reproduced"] = missing

    for w in (kw_words[:2] + ["!" + o for o in bang_words[:2]]):
        samples.append({"word": w})
    if wss:
        samples.append({"workspace": wss[len(fixed)] if len(wss) > len(fixed) else wss[0]})
    ctx.cov.update({
        "evaluations": evals + compared,
        "distinct_nontrivial": len(nontrivial),
        "rule": "exhaustive over the finite vocabularies: every offered keyword/type/value and `!`+every offered operator through the real lexer; "
                "every row of the lexer's operator table + %d probe names through the real lexer and looked up in the real completion list; "
                "every offered statement keyword with a minimal statement through the real parser; "
                "%d fixed + %d generated workspaces (1-3 files, includes, redeclared classes, nested blocks, 25%% truncated at a random byte): "
                "real completion with and without the `!` trigger at EVERY offset of every workspace file vs the extracted model; "
                "class oracle at every parent-class position of the untruncated ones. non-trivial = distinct word checked or distinct "
                "(workspace, file, offset) with a non-empty completion list" % (len(PROBE_OPS), len(fixed), nws),
        "exhaustive": "vocabularies x lexer tables: yes (finite); workspaces: sampled",
        "samples": samples,
        "grandparent_kind_histogram": ctx_hist,
        "parent_class_positions": parent_positions,
        "offsets_compared_with_model": compared,
        "correspondence_disagreements": ties,
        "traces_validated_against_impl": compared - ties,
        "compared": "completion item lists (label, snippet, kind) in order; class items as sorted lists; lexer token streams (kind, length, message); parse error counts",
    })
    ctx.assumptions += ["classes of the workspace = classes declared in the root file and the files it (transitively) includes, last declaration of a name wins",
                        "parent-class position = cursor inside or at the end of the name token of a class reference (ClassRef)"]
    vlib.broken_ties_to_violations(ctx, fails, found)


def replay(ctx, path):
    obj = json.load(open(path))
    bindir = vlib.build_harness(False, bins=["idedump", "lexdump", "parsedump", "compsession"])
    try:
        exe = vlib.build_model("compl")
    except vlib.BuildError:
        exe = None
    kind = obj.get("kind")
    bad = False
    if kind in ("lex-word", "bangop-offered", "bangop-lexed"):
        w = obj["word"] if kind == "lex-word" else "!" + obj["op"]
        r = lexdump(bindir, [w])[0]
        print("input:", repr(w))
        print("implementation (lexer):", json.dumps(r))
        if exe:
            print("model (lexer):", L.run_model(exe, "lex", [L.codes(w)])[0])
        voc = real_vocabularies(bindir)
        offered = [i[0] for i in voc["bang"]]
        k, _ = single_token(r, w)
        if kind == "lex-word":
            print("oracle: expected single token of kind", obj.get("expected_kind"), "got", k)
            bad = k is None or k != obj.get("expected_kind")
        elif kind == "bangop-offered":
            print("oracle: offered=%s, lexes as %s" % (obj["op"] in offered, k))
            bad = obj["op"] in offered and (k is None or k in ("Error", "Id"))
        else:
            print("oracle: lexer accepts as %s, offered=%s" % (k, obj["op"] in offered))
            bad = k is not None and k not in ("Error", "Id") and obj["op"] not in offered
    elif kind == "keyword-start":
        srcs = obj.get("tried") or [obj["input"]]
        rs = L.run_json(os.path.join(bindir, "parsedump"), srcs)
        for s, r in zip(srcs, rs):
            print("input:", repr(s))
            print("implementation (parser) errors:", json.dumps(r.get("errors")))
            if exe:
                print("model (parser):", L.run_model(exe, "stmt", ["%s %s" % (L.codes(obj["keyword"]), L.codes(s))])[0])
        bad = all(r.get("errors") or "tree" not in r or
                  [c for c in [c for c in r["tree"][4] if c[0] == "N"][0][4] if c[0] == "N"][:1] and
                  [c for c in [c for c in r["tree"][4] if c[0] == "N"][0][4] if c[0] == "N"][0][1] == "Error" for r in rs)
        print("oracle: none of the inputs is accepted as a statement starting with %r: %s" % (obj["keyword"], bad))
    elif kind == "after-bang":
        ws = dict(obj["workspace"])
        ws["offsets"] = [[obj["file"], obj["offset"]]]
        r = idedump(bindir, [ws])[0]
        comp, compbang = comp_at(r, obj["file"], obj["offset"])
        labels = [i[0] for i in (compbang or [])]
        print("input: %r offset %d trigger '!'" % (dict(obj["workspace"]["files"])[obj["file"]], obj["offset"]))
        print("implementation (completion):", json.dumps(labels))
        lc = lexdump(bindir, ["!" + o for o in obj["missing"]])
        acc = [o for o, rr in zip(obj["missing"], lc) if single_token(rr, "!" + o)[0] not in (None, "Error", "Id")]
        print("oracle: accepted by the lexer but not offered:", [o for o in acc if o not in labels])
        bad = any(o not in labels for o in acc)
    elif kind == "session":
        r = L.run_json(os.path.join(bindir, "compsession"), [obj["session"]])[0]
        last = r[-1] if isinstance(r, list) and r else r
        table = obj.get("classes_of_workspace") or {}
        print("input (session steps):", json.dumps(obj["session"]["steps"]))
        print("implementation (last completion):", json.dumps(last))
        print("oracle: classes of the current text:", json.dumps(table))
        ok = isinstance(last, list) and sorted(i[0] for i in last) == sorted(table) and all(
            i[1] is not None and len([x for x in L.snippet_tabstops(i[1]) if x]) == table[i[0]] for i in last)
        bad = not ok
    elif kind in ("classes", "dispatch"):
        ws = dict(obj["workspace"])
        ws["offsets"] = [[obj["file"], obj["offset"]]]
        r = idedump(bindir, [ws])[0]
        comp, compbang = comp_at(r, obj["file"], obj["offset"])
        print("input: workspace %s file %s offset %d" % (json.dumps(obj["workspace"]["files"]), obj["file"], obj["offset"]))
        print("implementation (completion):", json.dumps(comp))
        print("implementation (completion, trigger '!'):", json.dumps(compbang))
        if kind == "classes":
            table = obj["classes_of_workspace"]
            print("oracle: classes of the workspace:", json.dumps(table))
            ok = comp is not None and sorted(i[0] for i in comp) == sorted(table) and all(
                i[1] is not None and len([x for x in L.snippet_tabstops(i[1]) if x]) == table[i[0]] for i in comp)
            bad = not ok
        else:
            print("model:", json.dumps(obj.get("model")))
            bad = (compbang if obj.get("trigger") else comp) != obj.get("model")
    else:
        print("replay file names a broken proof obligation / tie:", json.dumps(obj.get("broken"))[:3000])
        bad = True
    print("REPRODUCED" if bad else "not reproduced")
    return 1 if bad else 0
