"""C11 Published diagnostics converge to the diagnostics of the final state; versions never decrease.

1. harness `lspdrive` (real Server, hook H2 compiled in so that "idle" is exact) and `idedump` (ide-level
   diagnostics of a workspace) are built against the current tree;
2. the Coq cone props/C11.vo is re-checked: C11_versions_monotone, C11_converges, C11_stream_is_sequential (every
   schedule of the lock-protocol LTS emits the sequential publication stream of model/ServerProto.v),
   C11_old_stale (the protocol before fix 3457fbf leaves stale entries);
3. correspondence: for generated histories of didOpen/didChange over small workspaces the diagnostic map of the
   workspace after every notification is computed at ide level (idedump on the overlay disk + open documents, root =
   the touched document, byte ranges converted by the reference mapper), given to the extracted model
   (`server_run pubs`), and the model's stream is compared with the publishDiagnostics stream of the real server,
   task by task (= version by version) as a multiset of (file, diagnostics) - settled mode, burst mode, and burst
   mode with holds that try to make an earlier diagnostics task finish after a later one;
4. oracle (the property itself, no model): at quiescence the last publication of every file of the final workspace
   equals its ide-level diagnostics; the last publication of every other file is empty; per file the versions
   never decrease.  (Which version number a publication carries is compared in step 3 only.)
"""
import json
import os
import time

import vlib
import serverlib as sl

THEOREMS = ["C11_versions_monotone", "C11_converges", "C11_stream_is_sequential", "C11_published_files_sequential", "C11_protocol_is_source",
            "C11_old_stale"]
TRUSTED = [
    "Coq 8.16.1 kernel; no axioms (Print Assumptions: closed under the global context)",
    "model/ServerProto.v part 1 as a model of Server::{did_open, did_change, update_diagnostics, bump_diagnostic_version} (tied to the code by the correspondence run of this check) and model/Sched.v as a model of the lock protocol (tied by checks/C08.py); the ClientSocket channel and the output writer of async-lsp are FIFO",
    "Analysis::diagnostics() of the snapshot taken after a notification is a parameter of the model (the diagnostic map); that it is a function of the workspace state only is C07; here it is observed through harness idedump on a fresh host",
    "fewer than 2^31 notifications per session (diagnostic_version is an i32: the increment overflows after 2147483648 notifications - panic in a debug build, wrap-around to negative versions in a release build)",
    "HashMap iteration order inside one task is abstracted (the comparison is per task as a multiset, the statements are per file)",
    "Coq extraction (ExtrOcamlBasic only), coq/extract/server_driver.ml, harness lspdrive / idedump, lib/serverlib.py (reference position mapper), this driver",
]

FILES = ["a.td", "b.td", "c.td"]


def gen_text(rng, me, faulty=None):
    """a small document: optional includes of the other files, clean / faulty declarations"""
    lines = []
    others = [f for f in FILES if f != me]
    for o in others:
        if rng.random() < 0.35:
            lines.append('include "%s"' % o)
    if rng.random() < 0.08:
        lines.append('include "%s"' % me)                  # self include (D1)
    if rng.random() < 0.1:
        lines.append('include "missing.td"')
    tag = me[0].upper()
    n = rng.randrange(0, 4)
    if faulty is None:
        faulty = rng.random() < 0.5
    for i in range(n):
        r = rng.random()
        if r < 0.4:
            lines.append("class %s%d;" % (tag, i))
        elif r < 0.5:
            lines.append("def d%s%d : %s%d;" % (tag.lower(), i, tag, rng.randrange(0, 3)))
        elif r < 0.6:
            # a class of ANOTHER file: found or not depending on what was included before this line (in an include
            # cycle: on which member is the root)
            lines.append("def x%s%d : %s%d;" % (tag.lower(), i, rng.choice(others)[0].upper(), rng.randrange(0, 2)))
        elif r < 0.75:
            lines.append("// é€\U0001F600 comment")
        else:
            lines.append("class %sx%d<int p> { int f = p; }" % (tag, i))
    if faulty:
        k = rng.random()
        if k < 0.4:
            lines.append("def e%s : Missing%s;" % (tag.lower(), tag))
        elif k < 0.7:
            lines.append("class ;")
        else:
            lines.append("class %sq : Nope%s<1>;" % (tag, tag))
    nl = "\r\n" if rng.random() < 0.2 else "\n"
    rng.shuffle(lines)
    # includes first keeps more of them resolvable, but any order is legal input
    return nl.join(lines) + (nl if lines and rng.random() < 0.8 else "")


def notifs(h):
    return [st for st in h["steps"] if "open" in st or "change" in st]


def gen_history(rng, quick, requests=False):
    disk = {}
    for f in FILES[1:]:
        if rng.random() < 0.85:
            disk[f] = gen_text(rng, f)
    if rng.random() < 0.3:
        disk["a.td"] = gen_text(rng, "a.td")
    steps, opened = [], []
    n = rng.randrange(2, 7 if quick else 10)
    for i in range(n):
        if opened and rng.random() < 0.12:
            # the document is opened AGAIN (after an optional didClose): the client's version counter restarts at 1
            f = rng.choice(opened)
            if rng.random() < 0.5:
                steps.append({"close": f})
            steps.append({"open": f, "text": gen_text(rng, f)})
        elif opened and rng.random() < 0.06:
            steps.append({"change_empty": rng.choice(opened)})      # a didChange without content: nothing to publish
        elif not opened or (rng.random() < 0.3 and len(opened) < len(FILES)):
            f = rng.choice([x for x in FILES if x not in opened])
            opened.append(f)
            steps.append({"open": f, "text": gen_text(rng, f)})
        else:
            f = rng.choice(opened)
            r = rng.random()
            earlier = [s["text"] for s in steps if (s.get("open") or s.get("change")) == f]
            if r < 0.12:
                text = ""
            elif r < 0.22:
                text = "class Z;\n"
            elif r < 0.45 and earlier:
                text = rng.choice(earlier)          # an earlier text of this document again (possibly unchanged)
            else:
                text = gen_text(rng, f)
            steps.append({"change": f, "text": text})
        if requests and rng.random() < 0.4:
            # requests in flight while the next notification arrives (burst mode): they only read
            for _ in range(rng.randrange(1, 3)):
                k = rng.choice(["hover", "documentSymbol", "foldingRange", "documentLink", "definition", "references"])
                steps.append({"request": k, "path": rng.choice(opened), "line": 0, "character": rng.randrange(0, 12)})
    return {"disk": disk, "steps": steps}


CORPUS = [
    # D14: the included file has a problem, then the include is removed
    {"disk": {"b.td": "class B : MissingB;\n"},
     "steps": [{"open": "a.td", "text": 'include "b.td"\nclass A;\n'}, {"change": "a.td", "text": ""}]},
    # the root switches to an unrelated document, then back
    {"disk": {"b.td": "def x : Nope;\n", "c.td": "class C;\n"},
     "steps": [{"open": "a.td", "text": 'include "b.td"\n'}, {"open": "c.td", "text": "class C;\ndef y : Q;\n"},
               {"change": "a.td", "text": 'include "b.td"\nclass ;\n'}, {"change": "c.td", "text": "class C;\n"}]},
    # a problem is fixed in place
    {"disk": {}, "steps": [{"open": "a.td", "text": "def d : M;\n"}, {"change": "a.td", "text": "class M;\ndef d : M;\n"}]},
    # a faulty document leaves (another root) and comes back with the same text
    {"disk": {}, "steps": [{"open": "a.td", "text": "def d : Missing;\n"}, {"open": "b.td", "text": "class B;\n"},
                           {"change": "a.td", "text": "def d : Missing;\n"}]},
    # a file leaves and re-enters the workspace
    {"disk": {"b.td": "class ;\n"},
     "steps": [{"open": "a.td", "text": 'include "b.td"\n'}, {"change": "a.td", "text": "class A;\n"},
               {"change": "a.td", "text": 'include "b.td"\nclass A;\n'}, {"change": "a.td", "text": "\n"}]},
]


CORPUS += [
    # a document is changed twice, opened again (version restarts at 1) and changed once more with other problems
    {"disk": {}, "steps": [{"open": "a.td", "text": "class A;\n"}, {"change": "a.td", "text": "class A;\ndef x : A;\n"},
                           {"change": "a.td", "text": "class A;\ndef x : A;\ndef y : A;\n"},
                           {"open": "a.td", "text": "def p : Gone1;\n"}, {"change": "a.td", "text": "def q : Gone2;\ndef r : Gone3;\n"}]},
    {"disk": {}, "steps": [{"open": "a.td", "text": "def a : M0;\n"}, {"change": "a.td", "text": "def a : M1;\n"},
                           {"change": "a.td", "text": "def a : M2;\n"}, {"change": "a.td", "text": "def a : M3;\n"},
                           {"close": "a.td"}, {"open": "a.td", "text": "class Ok;\n"}, {"change": "a.td", "text": "def a : M4;\n"},
                           {"change": "a.td", "text": "class Ok;\ndef b : Ok;\n"}]},
    # a didChange without content between two edits
    {"disk": {}, "steps": [{"open": "a.td", "text": "def a : M0;\n"}, {"change_empty": "a.td"},
                           {"change": "a.td", "text": "class M0;\ndef a : M0;\n"}, {"change_empty": "a.td"}]},
]

# include cycles whose diagnostics depend on which member is the root; the root moves between the members
CYCLE_A = 'include "b.td"\nclass X;\n'
CYCLE_B = 'include "a.td"\ndef d : X;\n'
CORPUS += [
    {"disk": {"a.td": CYCLE_A, "b.td": CYCLE_B},
     "steps": [{"open": "a.td", "text": CYCLE_A}, {"open": "b.td", "text": CYCLE_B}]},
    {"disk": {"a.td": CYCLE_A, "b.td": CYCLE_B},
     "steps": [{"open": "b.td", "text": CYCLE_B}, {"open": "a.td", "text": CYCLE_A}, {"change": "b.td", "text": CYCLE_B},
               {"change": "a.td", "text": CYCLE_A}]},
    {"disk": {"a.td": 'include "b.td"\nclass A0;\ndef p : C0;\n', "b.td": 'include "c.td"\nclass B0;\ndef q : A0;\n',
              "c.td": 'include "a.td"\nclass C0;\ndef r : B0;\n'},
     "steps": [{"open": "a.td", "text": 'include "b.td"\nclass A0;\ndef p : C0;\n'},
               {"open": "c.td", "text": 'include "a.td"\nclass C0;\ndef r : B0;\n'},
               {"open": "b.td", "text": 'include "c.td"\nclass B0;\ndef q : A0;\n'}]},
]

# "tail" histories: settled up to the last two notifications, which arrive back to back; a hold (armed at the
# penultimate notification) parks its diagnostics task before / while it publishes until the main loop has
# started on the last notification: the batch of the penultimate notification must still do its clearing
TAIL_HOLDS = [(pt, until) for until in ("main.barrier.before", "main.barrier.after", "main.vfs_write.before")
              for pt in ("task.start", "task.published_files.lock", "task.vfs_read.diagnostics", "task.vfs_acquired")]
CORPUS_TAIL = [
    {"disk": {}, "steps": [{"open": "a.td", "text": "def x : Missing;\n"}, {"open": "b.td", "text": "class B;\n"},
                           {"change": "b.td", "text": "class B;\nclass B2;\n"}]},
    {"disk": {"c.td": "class ;\n"},
     "steps": [{"open": "a.td", "text": 'include "c.td"\ndef x : Nope;\n'}, {"change": "a.td", "text": "class A;\n"},
               {"change": "a.td", "text": "class A;\ndef y : A;\n"}]},
]


# "overtake" sessions (deterministic in the quick tier): a workspace of three files so that a diagnostics batch has a tail;
# the batch of the first notification is parked before its first / second / third publication (hold with `skip`) until the
# task of the immediately following notification has ended (or its update_diagnostics / spawn has happened): on a server
# whose tasks publish after giving up their snapshot the later batch overtakes the tail of the earlier one
OVERTAKE_DISK = {"b.td": "class B : MissingB;\n", "c.td": "def dc : MissingC;\nclass C;\n"}
OVERTAKE_STEPS = [{"open": "a.td", "text": 'include "b.td"\ninclude "c.td"\ndef da : MissingA;\n'},
                  {"change": "a.td", "text": 'include "b.td"\ninclude "c.td"\nclass MissingA;\ndef da : MissingA;\n'}]
OVERTAKE_HOLDS = [{"point": pt, "until": until, "max_ms": 400, "skip": skip, "count": 1}
                  for until in ("task.end", "main.update_diagnostics", "main.spawn")
                  for pt, skips in (("task.vfs_read.diagnostics", (0, 1, 2)), ("task.published_files.lock", (0,)), ("task.start", (0,)))
                  for skip in skips]


QUIET_MS = [300]        # only used by the binary without hooks (idle = nothing received for this long)


def get_bindir():
    """lspdrive with hook H2; when the hooks build does not compile against the tree (a change that is fine in the
    production configuration may not be under cfg(tablegen_lsp_verif), e.g. destructuring ServerSnapshot, which has a Drop
    impl only there) the binary without hooks is used: no holds, idleness by a quiet period, the LARGE family below
    provides the long batches.  Returns (bindir, hooks, failure or None)."""
    try:
        if os.environ.get("C11_FORCE_NOHOOKS"):          # debugging aid: exercise the fallback on a tree that does compile
            raise vlib.BuildError("forced by C11_FORCE_NOHOOKS")
        return vlib.build_harness(True, bins=["lspdrive", "idedump"]), True, None
    except vlib.BuildError as ex:
        QUIET_MS[0] = 1200
        return (vlib.build_harness(False, bins=["lspdrive", "idedump"]), False,
                {"kind": "harness-build", "file": "lspdrive with hook H2 does not compile against this tree (the production build does)",
                 "error": str(ex)[-1200:]})


def large_history(n):
    """a root including n faulty files (a long diagnostics batch), opened and immediately changed twice"""
    disk = {"f%03d.td" % i: "def x%d : Missing%d;\n" % (i, i) for i in range(n)}
    inc = "".join('include "f%03d.td"\n' % i for i in range(n))
    return {"disk": disk, "mode": "burst", "holds": None, "large": n,
            "steps": [{"open": "a.td", "text": inc + "def r : MissingR;\n"},
                      {"change": "a.td", "text": inc + "class MissingR;\ndef r : MissingR;\n"},
                      {"change": "a.td", "text": inc + "def r : MissingR;\n"}]}


def tail_steps(h):
    """wait_idle after every notification except between the last two; returns (steps, index of the penultimate
    notification in the step list)"""
    idx = [i for i, st in enumerate(h["steps"]) if "open" in st or "change" in st]
    out, arm = [], 0
    for i, st in enumerate(h["steps"]):
        if len(idx) >= 2 and i == idx[-2]:
            arm = len(out)
        out.append(st)
        if ("open" in st or "change" in st) and not (len(idx) >= 2 and i == idx[-2]):
            out.append({"wait_idle": True})
    return out, arm


def tail_holds(k, arm):
    pt, until = TAIL_HOLDS[k % len(TAIL_HOLDS)]
    return [{"point": pt, "until": until, "max_ms": 300, "arm_after_step": arm, "count": 1}]


def has_include_cycle(files):
    import re
    g = {p: [q for q in re.findall(r'include "([^"]+)"', t) if q in files] for p, t in files.items()}
    state = {}

    def dfs(u):
        state[u] = 1
        for v in g[u]:
            if state.get(v) == 1 or (v not in state and dfs(v)):
                return True
        state[u] = 2
        return False
    return any(p not in state and dfs(p) for p in g)


def overlays(h):
    """workspace state after each notification: (files dict, root)"""
    files = dict(h["disk"])
    out = []
    for st in notifs(h):
        p = st.get("open") or st.get("change")
        files[p] = st["text"]
        out.append((dict(files), p))
    return out


def expected_maps(bindir, histories):
    """ide-level diagnostic map after every notification of every history, ranges as LSP [l0,c0,l1,c1]"""
    wss, index = [], []
    for hi, h in enumerate(histories):
        for si, (files, root) in enumerate(overlays(h)):
            wss.append({"files": [[p, t] for p, t in sorted(files.items())], "root": root, "offsets": "none",
                        "hint_ranges": [], "completion": False})
            index.append((hi, si, files))
    res = sl.idedump(bindir, wss)
    maps = {}
    for (hi, si, files), r in zip(index, res):
        if "panic" in r:
            maps[(hi, si)] = {"panic": r["panic"]}
            continue
        m = {}
        for path, ds in r["diagnostics"].items():
            mapper = sl.RefMapper(files.get(path, ""))
            conv = []
            for a, b, msg in ds:
                rg = mapper.rng(a, b)
                conv.append((tuple(rg) if rg else ("offsets", a, b), msg))
            m[path] = sorted(conv)
        maps[(hi, si)] = m
    return maps


def session_script(h, mode, holds=None):
    if mode == "tail":
        steps, arm = tail_steps(h)
        if holds is None:
            holds = tail_holds(h.get("tail_k", 0), arm)
            h["holds"] = holds
        return {"files_on_disk": [[p, t] for p, t in sorted(h["disk"].items())], "mode": "burst", "watchdog_ms": 8000,
                "quiet_ms": QUIET_MS[0], "hard_ms": 60000, "steps": sl.cap_in_flight(steps + [{"wait_idle": True}]), "holds": holds}
    return {"files_on_disk": [[p, t] for p, t in sorted(h["disk"].items())], "mode": mode, "watchdog_ms": 8000,
            "quiet_ms": QUIET_MS[0], "hard_ms": 60000,
            "steps": sl.cap_in_flight(h["steps"] + ([{"wait_idle": True}] if mode == "burst" else [])),
            "holds": holds or []}


def observed_stream(out):
    """[(version, path, sorted diags)] in the order received"""
    res = []
    for e in out["log"]:
        if e.get("ev") == "publish":
            ds = sorted((tuple(d["range"]), d["message"]) for d in e["diagnostics"])
            res.append((e["version"], e["path"], ds))
    return res


def idle_prefixes(out):
    """settled mode: the server is idle after every notification; returns [(number of notifications sent so far,
    stream received so far)] at every idle point"""
    res, stream, sent = [], [], 0
    for e in out["log"]:
        if e.get("ev") == "sent" and e.get("what") in ("didOpen", "didChange"):
            sent += 1
        elif e.get("ev") == "publish":
            ds = sorted((tuple(d["range"]), d["message"]) for d in e["diagnostics"])
            stream.append((e["version"], e["path"], ds))
        elif e.get("ev") == "idle" and sent:
            res.append((sent, list(stream)))
    return res


def model_stream(exe, maps_list):
    """maps_list: per history the list of maps.  Returns per history [(version, path, sorted diags)] of the model."""
    lines, tables = [], []
    for maps in maps_list:
        fid, did = {}, {}
        nts = []
        for m in maps:
            ents = []
            for path in sorted(m):
                f = fid.setdefault(path, len(fid))
                ents.append("%d:%s" % (f, ",".join(str(did.setdefault(d, len(did))) for d in m[path])))
            nts.append(";".join(ents))
        lines.append("|".join(nts))
        tables.append(({v: k for k, v in fid.items()}, {v: k for k, v in did.items()}))
    res = []
    for line, (fpath, dval) in zip(sl.model_lines(exe, "pubs", lines), tables):
        st = []
        for tok in line.split():
            f, v, ds = tok.split(":")
            st.append((int(v), fpath[int(f)], sorted(dval[int(d)] for d in ds.split(",") if d != "")))
        res.append(st)
    return res


def by_version(stream):
    g = {}
    for v, p, ds in stream:
        g.setdefault(v, []).append((p, ds))
    return {v: sorted(x) for v, x in g.items()}


def oracle(stream, final_map, n_notif):
    """the property on the observed stream; returns list of failures"""
    bad = []
    last, prev_v = {}, {}
    for v, p, ds in stream:
        if v is None or (p in prev_v and v < prev_v[p]):
            bad.append({"what": "version decreased", "file": p, "from": prev_v.get(p), "to": v})
        prev_v[p] = v
        last[p] = (v, ds)
    for p, ds in final_map.items():
        if p not in last:
            bad.append({"what": "file of the final workspace never published", "file": p, "expected": ds})
        elif last[p][1] != ds:
            bad.append({"what": "last publication differs from the diagnostics of the final state", "file": p,
                        "expected": ds, "observed": last[p][1], "version": last[p][0]})
    for p, (v, ds) in last.items():
        if p not in final_map and ds:
            bad.append({"what": "stale diagnostics: the file is not part of the final workspace but its last publication is not empty",
                        "file": p, "observed": ds, "version": v})
    return bad


REORDER = [(pt, until, count)
           for until in ("task.end", "main.spawn", "task.published_files.lock", "main.barrier.after", "main.vfs_write.acquired",
                         "task.start", "main.update_diagnostics")
           for pt in ("task.vfs_read.diagnostics", "task.vfs_acquired", "task.published_files.lock", "task.start", "task.end")
           for count in (1, 2)]


def reorder_holds(k):
    """try to let an earlier diagnostics task finish after a later one: park the task at one of its hook points until
    another task ends / the main loop gets further (enumerated, k-th combination)"""
    pt, until, count = REORDER[k % len(REORDER)]
    return [{"point": pt, "until": until, "max_ms": 250, "count": count}]


def run(ctx):
    t0 = time.time()
    bindir, hooks, build_fail = get_bindir()
    fails = vlib.proof_step(ctx, "TG.Props.C11", THEOREMS, ["props/C11.vo"], trusted_base=TRUSTED, translators=["t_server"])
    if build_fail:
        fails.append(build_fail)
    exe = vlib.build_model("server")
    t_setup = time.time() - t0

    rng = ctx.rng
    n_hist = 160 if ctx.quick else 4000
    hists = [dict(h, mode="settled") for h in CORPUS] + [dict(h, mode="burst") for h in CORPUS]
    hists += [dict(h, mode="tail", tail_k=k) for h in CORPUS_TAIL for k in range(len(TAIL_HOLDS))]
    hists += [{"disk": OVERTAKE_DISK, "steps": OVERTAKE_STEPS, "mode": "burst", "holds": [hd]} for hd in OVERTAKE_HOLDS]
    for i in range(n_hist):
        r = i % 4
        h = gen_history(rng, ctx.quick, requests=(r == 2))
        if r < 2:
            h["mode"], h["holds"] = "settled", None
        elif r == 2:
            h["mode"], h["holds"] = "burst", None
        elif (i // 4) % 2 == 0:
            h["mode"], h["holds"] = "burst", reorder_holds(i // 8)
        else:
            h["mode"], h["holds"], h["tail_k"] = "tail", None, i // 8
        hists.append(h)
    hists += [large_history(300 if ctx.quick else 600) for _ in range(2 if hooks else 4)]
    if not hooks:
        # no holds without hooks: the held families would only repeat the plain ones
        hists = [h for h in hists if not h.get("holds") and h["mode"] != "tail"]
    maps = expected_maps(bindir, hists)
    scripts = [session_script(h, h["mode"], h.get("holds")) for h in hists]
    outs = sl.run_sessions(bindir, scripts)

    stats = {"histories": 0, "notifications": 0, "publications": 0, "settled": 0, "burst": 0, "burst_with_holds": 0, "tail_burst_with_holds": 0, "include_cycles": 0, "requests_interleaved": 0,
             "files_that_left_workspace": 0, "ide_panics_skipped": 0, "hangs": 0, "idle_points_checked": 0}
    usable, maps_list = [], []
    oracle_fail, corr_fail, samples = [], [], []
    nontrivial = set()
    for hi, (h, sc, out) in enumerate(zip(hists, scripts, outs)):
        n = len(notifs(h))
        ms = [maps[(hi, si)] for si in range(n)]
        if any("panic" in m for m in ms):
            stats["ide_panics_skipped"] += 1      # analysis panics are C03's subject
            continue
        why = sl.session_failure(sc, out)
        if why is not None:
            stats["hangs"] += 1
            oracle_fail.append({"history": h, "failures": [{"what": "server did not become idle (with hooks: a notification was not followed by its diagnostics task, "
                                                                        "i.e. it was not processed; its diagnostics were never published): " + why}], "observed": []})
            continue
        stats["histories"] += 1
        stats["notifications"] += n
        stats["requests_interleaved"] += sum(1 for st in h["steps"] if "request" in st)
        stats["include_cycles"] += 1 if has_include_cycle(overlays(h)[-1][0]) else 0
        stats["settled" if h["mode"] == "settled" else ("tail_burst_with_holds" if h["mode"] == "tail" else
              ("burst_with_holds" if h.get("holds") else "burst"))] += 1
        stream = observed_stream(out)
        stats["publications"] += len(stream)
        bad = oracle(stream, ms[-1], n)
        if not bad and h["mode"] in ("settled", "tail"):
            # the property holds at EVERY idle point: the history so far is a history too
            for sent, pre in idle_prefixes(out):
                b2 = oracle(pre, ms[sent - 1], sent)
                if b2:
                    bad = [dict(x, after_notifications=sent) for x in b2]
                    stats["idle_points_checked"] += 0
                    break
                stats["idle_points_checked"] += 1
        ever = {p for m in ms for p in m}
        left = ever - set(ms[-1])
        if left:
            stats["files_that_left_workspace"] += 1
        if left and any(m[p] for m in ms for p in left if p in m):
            nontrivial.add(json.dumps([h["disk"], h["steps"]], sort_keys=True))
        if bad:
            oracle_fail.append({"history": h, "failures": bad, "observed": stream})
        usable.append((hi, h, stream))
        maps_list.append(ms)
        if len(samples) < 3 and left:
            samples.append({"disk": h["disk"], "steps": h["steps"], "mode": h["mode"],
                            "stream": [[v, p, len(ds)] for v, p, ds in stream]})
    for (hi, h, stream), mstream in zip(usable, model_stream(exe, maps_list)):
        if by_version(stream) != by_version(mstream):
            corr_fail.append({"history": {"disk": h["disk"], "steps": h["steps"], "mode": h["mode"], "holds": h.get("holds")},
                              "model": by_version(mstream), "observed": by_version(stream)})
        elif [v for v, _p, _d in stream] != sorted(v for v, _p, _d in stream):
            corr_fail.append({"history": {"disk": h["disk"], "steps": h["steps"]}, "what": "versions not in task order",
                              "observed": [v for v, _p, _d in stream]})

    # ---- verdict
    oracle_fail.sort(key=lambda f: (len(f["history"]["steps"]), len(json.dumps(f["history"]["steps"]))))
    for f in oracle_fail[:3]:
        h = f["history"]
        ctx.violation("history of %d notification(s): %s" % (len(notifs(h)), f["failures"][0]["what"]),
                      {"property": "C11", "seed": ctx.seed, "disk": h["disk"], "steps": h["steps"], "mode": h.get("mode", "settled"), "hooks": hooks,
                       "holds": h.get("holds"), "failures": f["failures"][:6],
                       "observed_stream": [[v, p, ds] for v, p, ds in f["observed"]][-12:],
                       "expected": "last publication per file = ide-level diagnostics of the final workspace (empty outside it); versions never decrease"})
    if corr_fail:
        fails.append({"kind": "correspondence", "file": "publication stream: model/ServerProto.v (server_run pubs) vs real server",
                      "count": len(corr_fail), "first": corr_fail[:2]})
    vlib.broken_ties_to_violations(ctx, fails, bool(oracle_fail))

    # ---- evidence
    ctx.cov["evaluations"] = stats["histories"]
    ctx.cov["distinct_nontrivial"] = len(nontrivial)
    ctx.cov["rule"] = ("evaluations = histories run on the real server and compared (whole publication stream vs model, final view vs "
                       "ide-level diagnostics); history = 2..%d didOpen/didChange over {a.td, b.td, c.td} (some on disk), texts drawn "
                       "from clean / faulty (unknown class, syntax error, bad template argument) variants with include statements "
                       "added and removed, LF/CRLF, non-ASCII comments; half settled, a quarter burst, a quarter burst with a hold "
                       "parking a diagnostics task; distinct_nontrivial = distinct histories in which a file that had a non-empty "
                       "publication is not part of the final workspace" % (6 if ctx.quick else 9))
    ctx.cov["input_distribution"] = stats
    ctx.cov["traces_validated_against_impl"] = len(usable)
    ctx.cov["oracle_failures"] = len(oracle_fail)
    ctx.cov["correspondence_disagreements"] = len(corr_fail)
    ctx.cov["samples"] = samples
    ctx.cov["timing_s"] = {"setup_and_proof": round(t_setup, 1), "total": round(time.time() - t0, 1)}
    ctx.assumptions = [
        "the expected diagnostics come from a fresh ide-level host on the same workspace state (C07 ties incremental to fresh)",
        "diagnostics of one file are compared as sorted lists (the order inside a publication is not part of the property)",
        "files are below 2^31 notifications away from overflow of the i32 version counter",
    ]


def replay(ctx, path):
    r = json.load(open(path))
    if "steps" not in r:
        print(json.dumps(r, indent=1)[:4000])
        print("replay: this file names a broken proof obligation / tie, not a history; re-run ./check C11")
        return 1
    bindir, _hooks, _bf = get_bindir()
    exe = vlib.build_model("server")
    h = {"disk": r["disk"], "steps": r["steps"], "mode": r.get("mode", "settled"), "holds": r.get("holds")}
    maps = expected_maps(bindir, [h])
    sc = session_script(h, h["mode"], h.get("holds"))
    out = sl.run_session(bindir, sc)
    n = len(notifs(h))
    ms = [maps[(0, si)] for si in range(n)]
    print("disk      :", json.dumps(h["disk"]))
    for st in h["steps"]:
        print("step      :", json.dumps(st))
    why = sl.session_failure(sc, out)
    if why:
        print("now       : server did not become idle:", why)
        print("VIOLATION property=C11 replay=%s" % path)
        return 1
    stream = observed_stream(out)
    print("final ide :", json.dumps(ms[-1]))
    print("observed  :", json.dumps(stream))
    print("model     :", json.dumps(model_stream(exe, [ms])[0]))
    bad = oracle(stream, ms[-1], n)
    for b in bad:
        print("FAILS     :", json.dumps(b))
    if bad:
        print("VIOLATION property=C11 replay=%s" % path)
        return 1
    print("replay: the final view now equals the diagnostics of the final state")
    return 0
