"""C09 Location fidelity: ranges sent to the client denote the analysed span.

1. harness `lspdrive` (the REAL Server over an in-memory transport) and `idedump` (every ide-level query of a
   workspace, byte ranges) are built against the current tree;
2. the Coq cone props/C09.vo is re-checked: for each response kind the model of the handler's conversion step
   (which LineIndex, which to_proto function) equals the specification mapper pos_of applied to the text of the
   file the ide-level result names (C09_definition, C09_references, C09_document_symbol, C09_folding_range,
   C09_inlay_hint, C09_document_link, C09_diagnostics; C09_old_refuted = the defect D6 in the pre-fix handler);
3. oracle: generated multi-file workspaces (includes two levels deep, different line structure per file, non-ASCII
   characters before the identifiers, LF / CRLF, last lines without terminator and with non-ASCII text left of their
   spans, an included document opened with a text different from the disk; and the disk-rewrite family: an included
   file that is not open is rewritten ON DISK - lines inserted above its symbols - between two notifications of the
   root; "current text" of such a file = the disk content at the last notification, which the server re-reads):
   every definition/references answer at every position where the analysis finds a symbol, documentSymbol /
   foldingRange / documentLink / inlayHint for every file, and every publishDiagnostics, taken from the real
   server's JSON, is compared with the ide-level result converted by an INDEPENDENT reference mapper (written
   from the LSP specification in lib/serverlib.py) using the text of the file the result names;
4. correspondence: the same ide-level results go through the extracted plumbing model (`server_run loc`) and its
   output is compared with the server's JSON.
"""
import json
import time

import vlib
import serverlib as sl

THEOREMS = ["C09_definition", "C09_references", "C09_document_symbol", "C09_folding_range", "C09_inlay_hint",
            "C09_document_link", "C09_diagnostics", "C09_plumbing_is_source", "C09_pipeline", "C09_pipeline_all", "C09_position_faithful", "C09_from_validity",
            "C09_pipeline_folding",
            "C09_old_refuted"]
# the gen files in the cone of props/C09.vo: GenServerConv, GenLineIndex (plumbing) and, through Pipeline / C17, the grammar side
TRANSLATORS = ["t_serverconv", "t_lineindex", "t_tokens", "t_lextables", "t_unicode", "t_grammar", "t_grammarcert", "t_ast",
               "t_foldkinds", "t_completion"]
TRUSTED = [
    "Coq 8.16.1 kernel; no axioms (Print Assumptions: closed under the global context)",
    "model/ServerProto.v part 2 as a model of the conversion step of the handlers of server.rs and of to_proto.rs (tied to the code by the correspondence run of this check); model/LineIndex.v as a model of line_index.rs (tied by checks/C10.py); URIs identified with file ids (the Vfs file set is a bijection between ids and paths; Url::from_file_path/to_file_path are inverse on the absolute paths used)",
    "tools/translate/t_serverconv.py (rigid-subset reader of the handlers of server.rs, of the to_proto wrappers and of the from_proto lookups; regenerates gen/GenServerConv.v on every run; C09_plumbing_is_source proves the model's h_* equal to it) and t_lineindex.py of group lines for the primitives",
    "C09_pipeline composes with the model pipeline of groups bridge / symmap / parser (Pipeline.analyze, AstToCore, Indexer, IndexerOps.abs; C17_pipeline_core) and with C10 of group lines: their ties to the Rust code (checked state equality of the indexer model, coreast, the parser correspondence, the translators of the grammar side) are theirs; only definition, references and the index diagnostics are composed (document symbols / folding / links / parse diagnostics are covered by the C09_* theorems under the C17 hypothesis)",
    "hypotheses of the theorems: files below 4 GiB; the analysis returns offsets on character boundaries of the file the result names (property C17)",
    "the position of a request is converted to an offset by from_proto with the requesting file's index (property C10); hover and completion responses carry no range",
    "the Coq model's workspace is one snapshot (content : file -> text); that the snapshot's text of a never-opened included file is what the server last read from disk, also when the file is rewritten on disk between two notifications of the root, is exercised by the oracle only (disk-rewrite session family), not modelled",
    "Coq extraction (ExtrOcamlBasic only), coq/extract/server_driver.ml, harness lspdrive / idedump, lib/serverlib.py (reference position mapper), this driver",
]

JUNK = ["", "// é€ comment", "/* \U0001F600 */", "// plain", "", "/* a\n b */"]
PRE = ["", "", "/* é */ ", "/* \U0001F600\U0001F600 */ ", "/*€*/", "\t"]


def gen_ws(rng):
    """root main.td -> sub1.td -> sub2.td (+ other.td from main); every file gets its own line structure"""
    def junk():
        return [rng.choice(JUNK) for _ in range(rng.randrange(0, 4))]

    def pre():
        return rng.choice(PRE)
    sub2 = junk() + [
        pre() + "class S2a<int alpha, int beta = 2> {",
        "  int fa = alpha;",
        pre() + "  int fb = beta;",
        "}",
        pre() + "class S2b;",
    ]
    if rng.random() < 0.5:
        sub2 += [pre() + "def s2bad : Missing2;"]
    if rng.random() < 0.5:
        sub2 += ["multiclass M2<int q> {", pre() + "  def _x : S2b;", "}"]
    sub1 = junk() + ['include "sub2.td"'] + junk() + [
        pre() + "class B1 : S2a<1> {",
        pre() + "  let fa = 7;",
        "}",
        pre() + "def s1d : S2a<3, 4>;",
    ]
    if rng.random() < 0.5:
        sub1 += [pre() + "class B1bad : Nope1;"]
    other = junk() + [pre() + "class Oth;", pre() + "def od : Oth;"]
    main = junk() + ['include "sub1.td"']
    use_other = rng.random() < 0.6
    if use_other:
        main += [pre() + 'include "other.td"']
    main += junk() + [
        pre() + "class Foo : B1;",
        pre() + "def d : Foo;",
        pre() + "def e : S2a<5, 6> {",
        "  let fb = 9;",
        "}",
        pre() + "def f : S2b;",
    ]
    if use_other:
        main += [pre() + "def g : Oth;"]
    if rng.random() < 0.6:
        main += [pre() + "def bad : NoSuch;"]
    if rng.random() < 0.3:
        main += ["defm mm : M2<1>;"]

    TAIL = ["/* é€ */ ", "/* \U0001F600é */ ", "/*é*/", "/* ü */\t"]

    def join(lines, tail=None):
        """tail = a last line WITHOUT terminator, non-ASCII text left of its spans"""
        nl = rng.choice(["\n", "\n", "\r\n"])
        if tail is not None and rng.random() < 0.5:
            return nl.join(lines) + nl + rng.choice(TAIL) + tail
        return nl.join(lines) + nl
    disk = {"sub1.td": join(sub1, "def t1 : S2b;"), "sub2.td": join(sub2, "def t2 : S2b;"),
            "other.td": join(other, "def to : Oth;")}
    steps = []
    opened_sub2 = False
    # an included document opened with a text that differs from the disk (line structure shifted)
    if rng.random() < 0.3:
        shifted = join(junk() + ["// shifted"] + sub2, "def t2 : S2b;")
        steps.append({"open": "sub2.td", "text": shifted})
        overlay = dict(disk, **{"sub2.td": shifted})
        opened_sub2 = True
    else:
        overlay = dict(disk)
    text = join(main, "def tm : Foo;")
    steps.append({"open": "main.td", "text": text})
    overlay["main.td"] = text
    ws = {"disk": disk, "open_steps": steps, "files": overlay, "family": "static"}
    # an included file that is NOT open is rewritten on disk (lines inserted above its symbols, other line ends)
    # between two notifications of the root: the server re-reads it when the root changes
    if rng.random() < 0.4:
        cands = ["sub1.td", "other.td"] if opened_sub2 else ["sub1.td", "sub2.td", "other.td"]
        if not use_other:
            cands = [c for c in cands if c != "other.td"]
        victim = rng.choice(cands)
        body = {"sub1.td": sub1, "sub2.td": sub2, "other.td": other}[victim]
        tail = {"sub1.td": "def t1 : S2b;", "sub2.td": "def t2 : S2b;", "other.td": "def to : Oth;"}[victim]
        extra = [rng.choice(["// inserted é", "", "/* x\n y */", "// \U0001F600"]) for _ in range(rng.randrange(1, 4))]
        if victim == "sub1.td":
            new_text = join(extra + body, tail)                    # includes stay legal anywhere
        else:
            new_text = join(extra + body, tail)
        text2 = text if rng.random() < 0.5 else join(main + [pre() + "class Extra;"], "def tm : Foo;")
        ws["rewrite"] = {"path": victim, "text": new_text, "root_text": text2}
        ws["files"] = dict(overlay, **{victim: new_text, "main.td": text2})
        ws["files_before"] = overlay
        ws["family"] = "disk-rewrite"
    return ws


SUBDIRS = ["w #1", "c%41", "q?x", "\u00e9t\u00e9", "a b", "x%2Fy", "h#"]
NAMES = {"sub1.td": ["Defs#1.td", "s 1.td", "sub1.td"], "sub2.td": ["Pct%41.td", "\u00fc2.td", "sub2.td"],
         "other.td": ["a b.td", "\u00fc.td", "o?x.td", "other.td"]}


def rename_ws(w, mapping, subdir):
    """the same workspace with other file names (on disk, in the include statements, in the steps) under a workspace
    directory `subdir`: names and directories with URI-reserved, percent-like, blank and non-ASCII characters"""
    def rn(p):
        return mapping.get(p, p)

    def rt(t):
        for a, b in mapping.items():
            t = t.replace('include "%s"' % a, 'include "%s"' % b)
        return t

    def rs(st):
        st = dict(st)
        for k in ("open", "change", "path", "write_disk"):
            if k in st:
                st[k] = rn(st[k])
        if "text" in st:
            st["text"] = rt(st["text"])
        return st
    out = {"disk": {rn(p): rt(t) for p, t in w["disk"].items()}, "files": {rn(p): rt(t) for p, t in w["files"].items()},
           "open_steps": [rs(st) for st in w["open_steps"]], "family": w["family"], "subdir": subdir, "renamed": mapping}
    if "rewrite" in w:
        rw = w["rewrite"]
        out["rewrite"] = {"path": rn(rw["path"]), "text": rt(rw["text"]), "root_text": rt(rw["root_text"])}
        out["files_before"] = {rn(p): rt(t) for p, t in w["files_before"].items()}
    return out


def special_names(rng, w):
    mapping = {k: rng.choice(v) for k, v in NAMES.items()}
    mapping = {k: v for k, v in mapping.items() if k != v}
    return rename_ws(w, mapping, rng.choice(SUBDIRS))


CORPUS = [  # the workspace of defect D6 (DESIGN section C09)
    {"disk": {"sub.td": "\n\nclass Bar;"}, "open_steps": [{"open": "main.td", "text": 'include "sub.td"\nclass Foo : Bar;'}],
     "files": {"sub.td": "\n\nclass Bar;", "main.td": 'include "sub.td"\nclass Foo : Bar;'}, "family": "static"},
    # last lines without terminator, non-ASCII text left of the spans, in the root and in the included file
    {"disk": {"sub.td": "class Bar;\n/* é€ */ class Baz : Bar;"},
     "open_steps": [{"open": "main.td", "text": 'include "sub.td"\n/* \U0001F600é */ def d : Baz;'}],
     "files": {"sub.td": "class Bar;\n/* é€ */ class Baz : Bar;", "main.td": 'include "sub.td"\n/* \U0001F600é */ def d : Baz;'},
     "family": "static"},
    # the included file is rewritten on disk (two lines inserted) between two notifications of the root
    {"disk": {"sub.td": "class Bar;\ndef q : Nope;\n"},
     "open_steps": [{"open": "main.td", "text": 'include "sub.td"\nclass Foo : Bar;\n'}],
     "rewrite": {"path": "sub.td", "text": "// one\n// two é\nclass Bar;\ndef q : Nope;\n", "root_text": 'include "sub.td"\nclass Foo : Bar;\n'},
     "files_before": {"sub.td": "class Bar;\ndef q : Nope;\n", "main.td": 'include "sub.td"\nclass Foo : Bar;\n'},
     "files": {"sub.td": "// one\n// two é\nclass Bar;\ndef q : Nope;\n", "main.td": 'include "sub.td"\nclass Foo : Bar;\n'},
     "family": "disk-rewrite"},
]


CORPUS += [
    # URI-reserved / percent-like / blank / non-ASCII characters in the workspace directory and in included file names
    rename_ws(CORPUS[0], {"sub.td": "Defs#1.td"}, "c#"),
    rename_ws(CORPUS[0], {"sub.td": "Pct%41.td"}, "q?x"),
    rename_ws(CORPUS[0], {"sub.td": "a b.td"}, "w %41"),
    rename_ws(CORPUS[2], {"sub.td": "\u00fc.td"}, "\u00e9t\u00e9"),
    # an included document with unsaved text, in a directory whose name needs percent-encoding
    {"disk": {"inc.td": "class Bar;\n"},
     "open_steps": [{"open": "inc.td", "text": "\n\n// unsaved\nclass Bar;\ndef q : Nope;\n"},
                    {"open": "main.td", "text": 'include "inc.td"\nclass Foo : Bar;\n'}],
     "files": {"inc.td": "\n\n// unsaved\nclass Bar;\ndef q : Nope;\n", "main.td": 'include "inc.td"\nclass Foo : Bar;\n'},
     "family": "static", "subdir": "dir with \u00e9"},
]


def pre_steps(w, warm):
    """everything before the compared requests: the opens; for the disk-rewrite family also some requests that
    touch the file (warm), the rewrite of the file on disk, and a didChange of the root"""
    st = list(w["open_steps"]) + [{"wait_idle": True}]
    if "rewrite" in w:
        rw = w["rewrite"]
        st += warm + [{"wait_idle": True}, {"write_disk": rw["path"], "text": rw["text"]},
                      {"change": "main.td", "text": rw["root_text"]}, {"wait_idle": True}]
    return st


def is_boundary(text_bytes, o):
    return o == len(text_bytes) or (o < len(text_bytes) and (text_bytes[o] & 0xC0) != 0x80)


def plan(ws, ide):
    """requests to send + what the ide-level result is, per request"""
    reqs = []
    files = ws["files"]
    mappers = {p: sl.RefMapper(t) for p, t in files.items()}
    for path in ide["workspace"]:
        text = files.get(path)
        if text is None:
            continue
        tb = text.encode("utf-8")
        m = mappers[path]
        nulls = 0
        for run in ide["at"].get(path, []):
            if run.get("def") is None and run.get("refs") is None:
                nulls += 1
                if nulls > 2:            # a couple of positions without a symbol per file: the answer must be null
                    continue
            o = run["o"]
            if not is_boundary(tb, o) or (o > 0 and tb[o - 1:o + 1] == b"\r\n"):
                continue
            pos = m.at(o)
            if pos is None:
                continue
            for kind, res in (("definition", run.get("def")), ("references", run.get("refs"))):
                reqs.append({"step": {"request": kind, "path": path, "line": pos[0], "character": pos[1]},
                             "kind": kind, "path": path, "offset": o, "ide": res})
        reqs.append({"step": {"request": "documentSymbol", "path": path}, "kind": "documentSymbol", "path": path,
                     "ide": ide["symbols"].get(path)})
        reqs.append({"step": {"request": "foldingRange", "path": path}, "kind": "foldingRange", "path": path,
                     "ide": ide["folding"].get(path)})
        reqs.append({"step": {"request": "documentLink", "path": path}, "kind": "documentLink", "path": path,
                     "ide": ide["links"].get(path)})
        full = [0, 0, m.lines, 0]
        hv = ide["hints"].get(path) or []
        reqs.append({"step": {"request": "inlayHint", "path": path, "range": full}, "kind": "inlayHint", "path": path,
                     "ide": hv[0][2] if hv else None})
    return reqs, mappers


def conv_sym(m, s):
    r = m.rng(s["range"][0], s["range"][1])
    return {"range": r, "children": [conv_sym(m, c) for c in s["children"]]}


def lsp_sym(s):
    return {"range": sl.lsp_range(s["range"]), "selection": sl.lsp_range(s["selectionRange"]),
            "children": [lsp_sym(c) for c in (s.get("children") or [])]}


def expected_of(req, mappers):
    """the ide-level result converted by the reference mapper (None = null response)"""
    k, ide = req["kind"], req["ide"]
    if ide is None:
        return None
    m = mappers.get(req["path"])
    if k == "definition":
        return {"uri": ide[0], "range": mappers[ide[0]].rng(ide[1], ide[2])}
    if k == "references":
        return sorted(({"uri": x[0], "range": mappers[x[0]].rng(x[1], x[2])} for x in ide), key=json.dumps)
    if k == "documentSymbol":
        return [conv_sym(m, s) for s in ide]
    if k == "foldingRange":
        return [[m.at(a)[0], m.at(b)[0]] for a, b in ide]
    if k == "documentLink":
        return [{"range": m.rng(a, b), "target": t} for a, b, t in ide]
    if k == "inlayHint":
        return [list(m.at(h[0])) for h in ide]
    raise ValueError(k)


def observed_of(req, result):
    k = req["kind"]
    if result is None:
        return None
    if k == "definition":
        return {"uri": result["uri"], "range": sl.lsp_range(result["range"])}
    if k == "references":
        return sorted(({"uri": x["uri"], "range": sl.lsp_range(x["range"])} for x in result), key=json.dumps)
    if k == "documentSymbol":
        out = []
        for s in result:
            t = lsp_sym(s)

            def strip(x):
                return {"range": x["range"], "children": [strip(c) for c in x["children"]]}
            # selectionRange must denote the same span
            def sel_ok(x):
                return x["selection"] == x["range"] and all(sel_ok(c) for c in x["children"])
            o = strip(t)
            if not sel_ok(t):
                o["selection_differs"] = True
            out.append(o)
        return out
    if k == "foldingRange":
        return [[x["startLine"], x["endLine"]] for x in result]
    if k == "documentLink":
        return [{"range": sl.lsp_range(x["range"]), "target": x["target"]} for x in result]
    if k == "inlayHint":
        return [[x["position"]["line"], x["position"]["character"]] for x in result]
    raise ValueError(k)


# ---- model lines (server_run loc)

def cps(text):
    return " ".join(str(ord(c)) for c in text)


def sexp(s):
    return "(%d %d%s)" % (s["range"][0], s["range"][1], "".join(" " + sexp(c) for c in s["children"]))


def model_case(req, order, files):
    k, ide = req["kind"], req["ide"]
    fid = {p: i for i, p in enumerate(order)}
    texts = "/".join(cps(files[p]) for p in order)
    if ide is None:
        res = "none"
    elif k == "definition":
        res = "%d %d %d" % (fid[ide[0]], ide[1], ide[2])
    elif k == "references":
        res = ",".join("%d %d %d" % (fid[x[0]], x[1], x[2]) for x in ide)
    elif k == "documentSymbol":
        res = " ".join(sexp(s) for s in ide)
    elif k == "foldingRange":
        res = ",".join("%d %d" % (a, b) for a, b in ide)
    elif k == "documentLink":
        res = ",".join("%d %d %d" % (a, b, fid[t]) for a, b, t in ide)
    elif k == "inlayHint":
        res = ",".join(str(h[0]) for h in ide)
    else:
        raise ValueError(k)
    return "%s|%d|%s|%s" % (k, fid[req["path"]], texts, res)


def model_parse(req, order, line):
    """model output -> same shape as observed_of"""
    k = req["kind"]
    if line in ("none", "panic") or line.startswith("driver-error"):
        return None if line == "none" else line

    def rng(s):
        a, b = s.split("-")
        return [int(x) for x in a.split(":")] + [int(x) for x in b.split(":")]
    if k == "definition":
        f, r = line.split(" ")
        return {"uri": order[int(f)], "range": rng(r)}
    if k == "references":
        return sorted(({"uri": order[int(x.split(" ")[0])], "range": rng(x.split(" ")[1])} for x in line.split(",") if x), key=json.dumps)
    if k == "foldingRange":
        return [[int(y) for y in x.split("-")] for x in line.split(",") if x]
    if k == "inlayHint":
        return [[int(y) for y in x.split(":")] for x in line.split(",") if x]
    if k == "documentLink":
        return [{"range": rng(x.split(" ")[0]), "target": order[int(x.split(" ")[1])]} for x in line.split(",") if x]
    if k == "documentSymbol":
        toks = line.replace("(", " ( ").replace(")", " ) ").split()
        pos = [0]

        def sym():
            assert toks[pos[0]] == "("
            pos[0] += 1
            r = rng(toks[pos[0]])
            pos[0] += 1
            ch = []
            while toks[pos[0]] == "(":
                ch.append(sym())
            pos[0] += 1
            return {"range": r, "children": ch}
        out = []
        while pos[0] < len(toks):
            out.append(sym())
        return out
    raise ValueError(k)


def decode_log(out):
    """raw_uris sessions: every URI the server sent is decoded by the independent decoder of lib/serverlib.py; a URI
    that does not name a file of the workspace exactly becomes a marker equal to no workspace path"""
    root = out.get("root", "")
    for e in out.get("log", []):
        if e.get("ev") == "response" and "result" in e:
            e["result"] = sl.decode_uris(root, e["result"])
        elif e.get("ev") == "publish":
            e["path"] = sl.decode_uri(root, e["path"])


def run(ctx):
    t0 = time.time()
    bindir = vlib.build_harness(True, bins=["lspdrive", "idedump"])
    vlib.build_harness(False, bins=["unidump"])          # t_unicode reads the std tables through it
    fails = vlib.proof_step(ctx, "TG.Props.C09", THEOREMS, ["props/C09.vo"], trusted_base=TRUSTED, translators=TRANSLATORS)
    exe = vlib.build_model("server")
    t_setup = time.time() - t0

    rng = ctx.rng
    n_ws = 40 if ctx.quick else 1000
    wss = list(CORPUS)
    for i in range(n_ws):
        w = gen_ws(rng)
        wss.append(special_names(rng, w) if i % 2 else w)
    ides = sl.idedump(bindir, [{"files": [[p, t] for p, t in sorted(w["files"].items())], "root": "main.td",
                                "offsets": "all", "completion": False} for w in wss])
    scripts, plans = [], []
    for w, ide in zip(wss, ides):
        if "panic" in ide:
            plans.append(None)
            scripts.append(None)
            continue
        reqs, mappers = plan(w, ide)
        warm = []
        if "rewrite" in w:
            vic = w["rewrite"]["path"]
            warm = [r["step"] for r in reqs if r["kind"] in ("definition", "references") and r["path"] == "main.td"][:6]
            warm += [{"request": "documentSymbol", "path": vic}, {"request": "foldingRange", "path": vic}]
        w["pre_steps"] = pre_steps(w, warm)
        steps = sl.cap_in_flight(w["pre_steps"] + [r["step"] for r in reqs] + [{"wait_idle": True}])
        # the compared requests are the LAST len(reqs) request steps (warm-up requests come before)
        req_idx = [si for si, st in enumerate(steps) if "request" in st][-len(reqs):] if reqs else []
        for si, r in zip(req_idx, reqs):
            r["id"] = si + 1                     # lspdrive: id = step index + 1
        plans.append((reqs, mappers))
        scripts.append({"files_on_disk": [[p, t] for p, t in sorted(w["disk"].items())], "mode": "burst", "raw_uris": True,
                        "workspace_subdir": w.get("subdir", ""),
                        "watchdog_ms": 15000, "quiet_ms": 300, "hard_ms": 90000, "steps": steps})
    idx = [i for i, s in enumerate(scripts) if s is not None]
    outs = dict(zip(idx, sl.run_sessions(bindir, [scripts[i] for i in idx])))

    stats = {"workspaces": 0, "disk_rewrite_sessions": 0, "files_without_final_newline": 0, "special_name_workspaces": 0, "responses": 0, "by_kind": {}, "locations_in_other_file": 0, "non_ascii_or_crlf_files": 0,
             "publications": 0, "null_responses": 0, "ide_panics_skipped": 0, "sessions_not_idle": 0}
    oracle_fail, corr_fail, samples = [], [], []
    nontrivial = 0
    model_lines, model_meta = [], []
    for i, w in enumerate(wss):
        if plans[i] is None:
            stats["ide_panics_skipped"] += 1
            continue
        out = outs[i]
        reqs, mappers = plans[i]
        ide = ides[i]
        if sl.session_failure(scripts[i], out) is not None:
            stats["sessions_not_idle"] += 1     # liveness is C08's subject; nothing to compare here
            continue
        stats["workspaces"] += 1
        stats["disk_rewrite_sessions"] += 1 if "rewrite" in w else 0
        stats["files_without_final_newline"] += sum(1 for t in w["files"].values() if t and t[-1] not in "\r\n")
        stats["non_ascii_or_crlf_files"] += sum(1 for t in w["files"].values() if "\r\n" in t or any(ord(c) > 127 for c in t))
        order = sorted(w["files"])
        decode_log(out)
        stats["special_name_workspaces"] += 1 if (w.get("subdir") or w.get("renamed")) else 0
        resp = {e["id"]: e for e in out["log"] if e.get("ev") == "response"}
        cross = False
        for r in reqs:
            e = resp.get(r["id"])
            if e is None:
                continue
            stats["responses"] += 1
            stats["by_kind"][r["kind"]] = stats["by_kind"].get(r["kind"], 0) + 1
            if "error" in e:
                oracle_fail.append({"ws": w, "request": r["step"], "expected": "a result", "observed": {"error": e["error"]}})
                continue
            exp = expected_of(r, mappers)
            obs = observed_of(r, e["result"])
            if exp is None:
                stats["null_responses"] += 1
            if r["kind"] in ("definition", "references") and r["ide"]:
                locs = [r["ide"]] if r["kind"] == "definition" else r["ide"]
                if any(x[0] != r["path"] for x in locs):
                    stats["locations_in_other_file"] += 1
                    cross = True
            if exp != obs:
                oracle_fail.append({"ws": w, "request": r["step"], "ide_result": r["ide"], "expected": exp, "observed": obs})
            model_lines.append(model_case(r, order, w["files"]))
            model_meta.append((w, r, order, obs))
        # published diagnostics of the last notification
        last_v = sum(1 for st in w["pre_steps"] if "open" in st or "change" in st) - 1
        pubs = {e["path"]: e for e in out["log"] if e.get("ev") == "publish" and e.get("version") == last_v}
        diag_case = []
        for path, ds in ide["diagnostics"].items():
            stats["publications"] += 1
            m = mappers.get(path) or sl.RefMapper(w["files"].get(path, ""))
            exp = sorted([m.rng(a, b), msg] for a, b, msg in ds)
            e = pubs.get(path)
            obs = sorted([d["range"], d["message"]] for d in e["diagnostics"]) if e else None
            if exp != obs:
                oracle_fail.append({"ws": w, "request": {"publishDiagnostics": path}, "ide_result": ds, "expected": exp, "observed": obs})
            diag_case.append((path, ds, obs))
        fid = {p: k for k, p in enumerate(order)}
        if all(p in fid for p, _d, _o in diag_case):
            model_lines.append("diagnostics|0|%s|%s" % ("/".join(cps(w["files"][p]) for p in order),
                               ";".join("%d:%s" % (fid[p], ",".join("%d %d" % (a, b) for a, b, _m in sorted(ds))) for p, ds, _o in diag_case)))
            model_meta.append((w, {"kind": "diagnostics", "diag_case": diag_case}, order, None))
        if cross:
            nontrivial += 1
        if len(samples) < 3 and cross:
            r0 = next(r for r in reqs if r["kind"] == "definition" and r["ide"] and r["ide"][0] != r["path"])
            samples.append({"files": w["files"], "request": r0["step"], "ide_result": r0["ide"],
                            "server": resp[r0["id"]].get("result")})

    # correspondence with the extracted plumbing model
    n_model = 0
    for (w, r, order, obs), line in zip(model_meta, sl.model_lines(exe, "loc", model_lines)):
        n_model += 1
        if r["kind"] == "diagnostics":
            got = {}
            if line not in ("panic",) and not line.startswith("driver-error"):
                for ent in [x for x in line.split(";") if x]:
                    f, _, rest = ent.partition(":")
                    got[order[int(f)]] = sorted([[int(y) for y in a.split(":")] + [int(y) for y in b.split(":")]
                                                 for a, b in (x.split("-") for x in rest.split(",") if x)])
            for path, ds, o in r["diag_case"]:
                if o is None or sorted(x[0] for x in o) != got.get(path):
                    corr_fail.append({"files": w["files"], "publishDiagnostics": path, "model": got.get(path), "observed": o})
            continue
        mo = model_parse(r, order, line)
        if mo != obs:
            corr_fail.append({"files": w["files"], "request": r["step"], "ide_result": r["ide"], "model": mo, "observed": obs})

    # ---- verdict
    oracle_fail.sort(key=lambda f: (len(json.dumps(f["ws"]["files"])), json.dumps(f["request"], sort_keys=True)))
    seen = set()
    for f in oracle_fail:
        key = next(iter(f["request"].values())) if "request" not in f["request"] else f["request"]["request"]
        if key in seen or len(seen) >= 4:
            continue
        seen.add(key)
        ctx.violation("%s: the server's answer does not denote the analysed span" % json.dumps(f["request"]),
                      {"property": "C09", "seed": ctx.seed, "disk": f["ws"]["disk"], "pre_steps": f["ws"]["pre_steps"], "family": f["ws"].get("family"), "subdir": f["ws"].get("subdir", ""),
                       "files": f["ws"]["files"], "request": f["request"], "ide_result": f.get("ide_result"),
                       "expected": f["expected"], "observed": f["observed"],
                       "oracle": "ide-level byte range converted by the reference mapper with the text of the file the result names"})
    if corr_fail:
        fails.append({"kind": "correspondence", "file": "plumbing model (server_run loc) vs real server JSON",
                      "count": len(corr_fail), "first": corr_fail[:2]})
    vlib.broken_ties_to_violations(ctx, fails, bool(oracle_fail))

    # ---- evidence
    ctx.cov["evaluations"] = stats["responses"] + stats["publications"]
    ctx.cov["distinct_nontrivial"] = nontrivial
    ctx.cov["rule"] = ("evaluations = responses and publications of the real server compared with the ide-level result converted by "
                       "the reference mapper; workspace = main.td -> sub1.td -> sub2.td (+ other.td), random blank/comment lines "
                       "(non-ASCII, multi-line) in front of and inside every file, non-ASCII block comments before identifiers, LF or "
                       "CRLF per file, sub2.td sometimes opened with a shifted text; requests: definition + references at the start of "
                       "every run of offsets where the analysis finds a symbol (all files of the workspace), documentSymbol, "
                       "foldingRange, documentLink, inlayHint for every file; distinct_nontrivial = workspaces with at least one "
                       "location in a file other than the requesting one")
    ctx.cov["input_distribution"] = stats
    ctx.cov["model_cases_compared"] = n_model
    ctx.cov["traces_validated_against_impl"] = n_model
    ctx.cov["oracle_failures"] = len(oracle_fail)
    ctx.cov["correspondence_disagreements"] = len(corr_fail)
    ctx.cov["samples"] = samples
    ctx.cov["timing_s"] = {"setup_and_proof": round(t_setup, 1), "total": round(time.time() - t0, 1)}
    ctx.assumptions = [
        "request positions are computed by the reference mapper from character-boundary offsets outside CR LF pairs (C10 covers the rest)",
        "references are compared as a multiset; hover/completion carry no range",
    ]


def replay(ctx, path):
    r = json.load(open(path))
    if "request" not in r:
        print(json.dumps(r, indent=1)[:4000])
        print("replay: this file names a broken proof obligation / tie, not an input; re-run ./check C09")
        return 1
    bindir = vlib.build_harness(True, bins=["lspdrive", "idedump"])
    pre = r.get("pre_steps") or (r["open_steps"] + [{"wait_idle": True}])
    w = {"disk": r["disk"], "files": r["files"]}
    ide = sl.idedump(bindir, [{"files": [[p, t] for p, t in sorted(w["files"].items())], "root": "main.td",
                               "offsets": "all", "completion": False}])[0]
    reqs, mappers = plan(w, ide)
    req = r["request"]
    print("files     :", json.dumps(w["files"]))
    print("request   :", json.dumps(req))
    bad = False
    if "publishDiagnostics" in req:
        sc = {"files_on_disk": [[p, t] for p, t in sorted(w["disk"].items())], "mode": "settled", "steps": pre,
              "raw_uris": True, "workspace_subdir": r.get("subdir", "")}
        out = sl.run_session(bindir, sc)
        decode_log(out)
        p = req["publishDiagnostics"]
        e = [x for x in out["log"] if x.get("ev") == "publish" and x["path"] == p]
        m = mappers.get(p) or sl.RefMapper(w["files"].get(p, ""))
        exp = sorted([m.rng(a, b), msg] for a, b, msg in ide["diagnostics"].get(p, []))
        obs = sorted([d["range"], d["message"]] for d in e[-1]["diagnostics"]) if e else None
        print("expected  :", json.dumps(exp))
        print("observed  :", json.dumps(obs))
        bad = exp != obs
    else:
        sc = {"files_on_disk": [[p, t] for p, t in sorted(w["disk"].items())], "mode": "settled",
              "steps": pre + [req], "raw_uris": True, "workspace_subdir": r.get("subdir", "")}
        out = sl.run_session(bindir, sc)
        decode_log(out)
        e = [x for x in out["log"] if x.get("ev") == "response" and x.get("id", 0) == len(pre) + 1]
        match = [q for q in reqs if q["step"] == req]
        if not match or not e:
            print("replay: request not reproducible on the current tree (%d planned, %d responses)" % (len(match), len(e)))
            return 1
        exp = expected_of(match[0], mappers)
        obs = observed_of(match[0], e[-1].get("result"))
        print("ide result:", json.dumps(match[0]["ide"]))
        print("expected  :", json.dumps(exp))
        print("observed  :", json.dumps(obs))
        bad = exp != obs
    if bad:
        print("VIOLATION property=C09 replay=%s" % path)
        return 1
    print("replay: the server's answer now denotes the analysed span")
    return 0
