"""C18 Outline and folding mirror the declaration structure.

1. harness `parsedump`, `idedump` (and `outdump` for the symbol-table part) are built against the current tree;
2. translators t_tokens, t_foldkinds regenerate the kind tables (the folding kind list is read from
   folding_range.rs); the Coq cone props/C18.vo is re-checked: for ALL trees the folding model yields one range per
   class/def/defset/foreach/if/let/multiclass node in preorder, from the node's first token to the end of its last
   non-trivia token, lo <= hi, pairwise nested or disjoint, in source order; Print Assumptions; forbidden-declaration scan;
3. correspondence: REAL rowan trees (parsedump) are fed to the extracted model (`outline_run fold`), its ranges are
   compared with the real `Analysis::folding_range` on generated programs, their prefixes and token mutations,
   hand-written edge cases (CRLF, non-ASCII, preprocessor lines, truncated statements) and the LLVM .td corpus;
4. oracles on the real code's observations:
   (a) folding: a Python reference computed from the real tree with the kind list of the PROPERTY TEXT, the
       structural laws (lo <= hi, laminar), and the ranges known by construction of the generator (keyword ..
       last token of every block statement);
   (b) outline: the document symbols known by construction (lib/outgen.py): classes, named defs, defsets,
       multiclasses in source order, defs of a defset as its children, kind / name / identifier range, one child
       per template argument and per field declared or overridden in the body.
"""
import json
import time

import outgen
import outlib as L
import vlib

THEOREMS = ["C18_fold_one_to_one", "C18_fold_count", "C18_fold_kinds", "C18_fold_starts_at_first_token",
            "C18_fold_wf", "C18_fold_laminar", "C18_fold_source_order", "C18_model_is_source", "C18_outline_model_is_source", "C18_source_fold",
            "C18_outline_file_list", "C18_outline_of_file", "C18_outline_entry", "C18_outline_children_order",
            "C18_outline_children_distinct", "C18_outline_registration_kept", "C18_outline_slice_total", "C18_outline_slice_replays", "C18_outline_slice_file_list",
            "C18_outline_source_subseq", "C18_outline_source_complete", "C18_outline_visit", "C18_outline_files_complete",
            "C18_outline_children", "C18_outline_in_text",
            "C18_outline_children_in_text"]
TRUSTED = [
    "Coq 8.16.1 kernel; vm_compute only in the Examples; no axioms (Print Assumptions: closed under the global context)",
    "translator tools/translate/t_handlers.py (Rust subset reader + closed operation table): renders the CURRENT folding_range.rs exec and "
    "utils.rs range_excluding_trivia, document_symbol.rs exec / symbol_to_document_symbol as coq/gen/GenHandlers.v over coq/model/HandlerApi.v + HandlerSymApi.v (rowan cursor API descendants / descendants_with_tokens / "
    "into_token / kind / text_range and the iterator adaptors = the modelled vocabulary); C18_model_is_source / C18_outline_model_is_source prove the rendering equal to the hand "
    "models Folding.v / Outline.document_symbol for all inputs",
    "shared green-tree model coq/model/Tree.v (ranges derived from leaf byte lengths; descendants() = preorder nodes; "
    "descendants_with_tokens().filter_map(into_token) = leaf sequence) -- rowan cursor contracts, exercised by the correspondence run on real trees",
    "hand model coq/model/Folding.v of folding_range::exec and utils::range_excluding_trivia, tied to the code by the correspondence "
    "run of this check; translator tools/translate/t_foldkinds.py (kind list) and t_tokens.py (SyntaxKind, is_trivia)",
    "Coq extraction (ExtrOcamlBasic only), coq/extract/outline_driver.ml, lib/treeio.py (serialisation of the real tree)",
    "Rust harness parsedump.rs / idedump.rs, this Python driver, lib/outlib.py (reference oracle), lib/outgen.py "
    "(generator whose expected outline / folding is known by construction)",
    "outline part: hand model coq/model/Outline.v of document_symbol.rs over the symbol-map state machine coq/model/SymbolMap.v "
    "(group symmap: arenas as lists, IndexMap/HashMap as association lists, per-file list, interval map); tied to the code by replaying "
    "the REAL op log (hook H3, --cfg tablegen_lsp_verif) in the extracted model and comparing its document symbols (name, typ, range, kind, "
    "children) with the real handler's on every generated workspace; the Type strings are not in the log and are taken from the final state",
    "hand model coq/model/OutlineIndex.v of the outline-relevant slice of index.rs (Class/Def/Defset/MultiClass/TemplateArgDecl/FieldDef/"
    "FieldLet/ParentClassList arms) over the typed AST CoreAst.v: tied by comparing its op "
    "sequence with the projection of the REAL op log onto the ops document_symbol depends on, and its outline with the real handler's. The typed AST "
    "is computed INSIDE Coq from the texts (group bridge: model parser + coq/model/AstToCore.v + Pipeline.v, extracted unit `bridge`) and must be, "
    "character for character, the one harness/src/bin/coreast.rs reads off the real parse tree (compared on every generated workspace; when the "
    "bridge unit is unavailable the harness AST alone is used). That the slice yields the outline the STATEMENT describes is proven for the "
    "registrations (C18_outline_visit / _files_complete / _children, unconditional since C18_outline_slice_total) and additionally covered by the "
    "generator oracle (expected outline known by construction)",
    "C18_outline_in_text / C18_outline_children_in_text only: group bridge's coq/model/Pipeline.v (texts -> workspace) and its theorem PipelineProofs.analyze_wf, over the generated "
    "grammar / accessor / lexer tables coq/gen/GenGrammar.v, GenAst.v, GenLexTables.v, GenUnicode.v, GenLexer.v (translators t_grammar, t_ast, "
    "t_lextables, t_unicode, t_lexer: re-run by this check; they are C01/C02/C04/C15's translators and are tied to the code there)",
]


def fold_cases_from_texts(ctx, bindir, exe, sk_index, texts, label, stats, fails_out, want_first_token=True):
    """texts: list of str.  parse -> model vs real folding, reference vs real, structure."""
    trees = L.parsedump(bindir, texts)
    ide = L.idedump(bindir, [L.ws_of_text(t) for t in texts])
    lines, idx = [], []
    for i, (t, r) in enumerate(zip(texts, trees)):
        if "tree" in r:
            lines.append(L.tree_line(r["tree"], t, sk_index))
            idx.append(i)
    mout = L.model_lines(exe, "fold", lines)
    model = {i: m for i, m in zip(idx, mout)}
    for i, t in enumerate(texts):
        tr, ir = trees[i], ide[i]
        stats["fold_texts"] += 1
        if "tree" not in tr or "folding" not in ir:
            stats["skipped_crash"] += 1      # parser/analysis panics belong to C02/C03
            continue
        real = ir["folding"].get("main.td")
        if real is None:
            stats["skipped_crash"] += 1
            continue
        ref = L.fold_reference(tr["tree"])
        stats["fold_ranges"] += len(real)
        if len(real) >= 2:
            stats["fold_nontrivial"] += 1
        probs = L.fold_structure_problems(real)
        if real != ref or probs:
            fails_out["oracle"].append({"kind": "folding", "source": label, "text": t, "expected": ref, "observed": real,
                                        "problems": probs, "model": model.get(i)})
        if want_first_token:
            b = L.first_tokens_ok(tr["tree"])
            if b:
                fails_out["oracle"].append({"kind": "folding-first-token", "source": label, "text": t,
                                            "expected": "every block statement starts with a non-trivia token",
                                            "observed": b, "problems": [], "model": model.get(i)})
        m = model.get(i)
        ms = " ".join("%d:%d" % (a, b) for a, b in real)
        if m != ms:
            fails_out["corr"].append({"kind": "folding", "source": label, "text": t, "model": m, "observed": ms})


def run(ctx):
    t0 = time.time()
    bindir = vlib.build_harness(False, bins=["parsedump", "idedump", "coreast"])
    bindir_h = vlib.build_harness(True, bins=["outdump"])
    fails = vlib.proof_step(ctx, "TG.Props.C18", THEOREMS, ["props/C18.vo"], trusted_base=TRUSTED,
                            translators=["t_tokens", "t_foldkinds", "t_handlers", "t_lextables", "t_unicode", "t_lexer", "t_grammar", "t_grammarcert", "t_ast"])
    exe = vlib.build_model("outline")
    sk_index = L.sk_index_table()
    t_setup = time.time() - t0
    import t_foldkinds
    try:
        shape = t_foldkinds.parse(vlib.REPO)
        ctx.cov["source_shape"] = {"folding_range::exec as modelled": shape["exec_shape_ok"],
                                   "utils::range_excluding_trivia as modelled": shape["trim_shape_ok"]}
    except Exception as ex:      # already reported by proof_step as a translator failure
        ctx.cov["source_shape"] = str(ex)

    rng = ctx.rng
    n_ws = 260 if ctx.quick else 1600
    stats = {"workspaces": 0, "files": 0, "outline_entries": 0, "outline_children": 0, "fold_texts": 0, "fold_ranges": 0,
             "fold_nontrivial": 0, "skipped_crash": 0, "by_construction_folds": 0}
    found = {"oracle": [], "corr": []}
    feature_count = {}

    # ---------------- A. generated workspaces: outline and folding known by construction
    wss = []
    for i in range(n_ws):
        size = rng.choice([2, 4, 6, 6, 9]) if i % 7 else rng.choice([12, 16])
        wss.append(outgen.gen_workspace(rng, size=size))
    # a second batch from its OWN random stream with parent lists biased towards diamonds (an ancestor reached twice before
    # the parent that declares the overridden field; added after mutation wave 5, C18-mut7): the default batch is unchanged
    import random as _random
    rng_d = _random.Random(ctx.seed * 1000003 + 18)
    outgen.DIAMOND_BIAS = 0.6
    try:
        wss += [outgen.gen_workspace(rng_d, size=rng_d.choice([16, 24, 32])) for _ in range(60 if ctx.quick else 400)]
    finally:
        outgen.DIAMOND_BIAS = 0.0
    ide = L.idedump(bindir, [{"files": w["files"], "root": w["root"], "offsets": "none", "hint_ranges": [],
                              "completion": False} for w in wss])
    distinct_nontrivial = set()
    for w, r in zip(wss, ide):
        stats["workspaces"] += 1
        for f in w["features"]:
            feature_count[f] = feature_count.get(f, 0) + 1
        if "symbols" not in r:
            found["oracle"].append({"kind": "analysis-crash", "source": "generated", "files": w["files"], "root": w["root"],
                                    "expected": "document symbols", "observed": r})
            continue
        for fname, text in w["files"]:
            stats["files"] += 1
            e = w["expected"][fname]
            exp_o = L.expected_outline(e["outline"])
            real_o = L.real_outline(r["symbols"].get(fname))
            stats["outline_entries"] += len(real_o)
            stats["outline_children"] += sum(len(x["children"]) for x in real_o)
            if len(real_o) >= 2 and any(x["children"] for x in real_o):
                distinct_nontrivial.add(text)
            if not L.match_outline(exp_o, real_o):
                found["oracle"].append({"kind": "outline", "source": "generated", "files": w["files"], "root": w["root"],
                                        "file": fname, "expected": exp_o, "observed": real_o})
            realf = r["folding"].get(fname)
            expf = [list(x) for x in e["folds"]]
            stats["by_construction_folds"] += len(expf)
            if realf != expf:
                found["oracle"].append({"kind": "folding-by-construction", "source": "generated", "files": w["files"],
                                        "root": w["root"], "file": fname, "expected": expf, "observed": realf})
    # symbol-table model: replay of the real op log -> document symbols, compared with the real handler
    dumps = L.outdump(bindir_h, [{"files": w["files"], "root": w["root"], "offsets": "none", "hint_ranges": []} for w in wss])
    sym_bad, sym_stats = L.sym_compare(exe, sk_index, list(zip(wss, dumps)), want_hover=False, want_hints=False)
    stats.update(sym_stats)
    for b in sym_bad:
        found["corr"].append(dict(b, source="generated", text=dict((x, y) for x, y in b["files"]).get(b.get("file", b["root"]), "")))
    # indexer slice (OutlineIndex.v): typed AST of the real trees (harness coreast) -> its op sequence vs the projection of the
    # real op log, and the outline it determines vs the real handler
    cas = L.coreast(bindir, [{"files": w["files"], "root": w["root"]} for w in wss])
    # ... and the SAME typed AST computed inside Coq from the texts alone (group bridge: model parser -> AstToCore.v ->
    # Pipeline.v include resolution).  Where it is available the slice is fed from it, so that the chain
    # texts -> parser model -> bridge -> indexer slice -> Outline.document_symbol runs entirely in extracted Coq and its result is
    # compared with the real handler; the harness AST must agree with it character for character.
    cas, bstats, bbad = L.core_from_texts(wss, cas)
    stats.update(bstats)
    for b in bbad:
        found["corr"].append(dict(b, source="generated", text=dict((x, y) for x, y in b["files"]).get(b["root"], "")))
    oix_bad, oix_stats = L.oix_compare(exe, list(zip(wss, dumps, cas)))
    stats.update(oix_stats)
    for b in oix_bad:
        found["corr"].append(dict(b, source="generated", text=dict((x, y) for x, y in b["files"]).get(b.get("file", b["root"]), "")))
    # the same texts through the tree-level comparison (model, reference)
    gen_texts = [t for w in wss for (_f, t) in w["files"]]
    fold_cases_from_texts(ctx, bindir, exe, sk_index, gen_texts, "generated", stats, found)

    # ---------------- B. damaged programs, edge cases, corpus
    dmg = []
    base = gen_texts[: (120 if ctx.quick else 600)]
    trees = L.parsedump(bindir, base)
    for t, tr in zip(base, trees):
        dmg += L.prefixes(rng, t, 3)
        if "tree" in tr:
            dmg += L.token_mutations(rng, t, L.tree_tokens(tr["tree"]), 3)
    # every prefix of a few short programs (truncation exactly after each token)
    for t in [x for x in gen_texts if len(x) < 160][: (6 if ctx.quick else 30)]:
        dmg += [t[:k] for k in range(len(t) + 1)]
    dmg = list(dict.fromkeys(dmg))
    fold_cases_from_texts(ctx, bindir, exe, sk_index, L.HAND_TEXTS, "hand", stats, found)
    fold_cases_from_texts(ctx, bindir, exe, sk_index, dmg, "damaged", stats, found)
    corpus = L.corpus_texts(40000 if ctx.quick else 400000)
    fold_cases_from_texts(ctx, bindir, exe, sk_index, [s for _p, s in corpus], "corpus", stats, found)

    # ---------------- extraction cross-check: a slice of the batch evaluated by vm_compute inside Coq
    xc = []
    small = [t for t in gen_texts + L.HAND_TEXTS if 0 < len(t) < 260][: (12 if ctx.quick else 40)]
    for t, tr in zip(small, L.parsedump(bindir, small)):
        if "tree" in tr:
            m = L.model_lines(exe, "fold", [L.tree_line(tr["tree"], t, sk_index)])[0]
            folds = [tuple(int(x) for x in p.split(":")) for p in m.split()] if m and not m.startswith(("DRIVER", "MODEL")) else []
            xc.append((tr["tree"], t, folds, []))
    ok_xc, n_xc, log_xc = L.coq_crosscheck(xc, "c18")
    ctx.cov["extraction_crosschecked_in_coq"] = n_xc
    if not ok_xc:
        fails.append({"kind": "correspondence", "file": "extracted model vs vm_compute inside Coq (folding_model)", "log": log_xc})
    # the same for the symbol-table model: a few real op logs replayed by vm_compute, document_symbol compared with the
    # extracted model's answer (cross-checks the driver's op parser as well)
    xs = []
    for w, d in zip(wss, dumps):
        if len(xs) >= (3 if ctx.quick else 10):
            break
        if isinstance(d, dict) and d.get("oplog") and len(d["oplog"]) <= 120:
            ft = dict((a, b) for a, b in w["files"])
            qs = [["outline", fid] for _p, fid in d["fids"].items()]
            o = L.model_lines(exe, "sym", [L.sym_case_line(d, ft, sk_index, qs)])[0]
            try:
                res = json.loads(o)["results"]
            except Exception:
                continue
            xs.append((d, {fid: r for (_p, fid), r in zip(d["fids"].items(), res)}))
    ok_xs, n_xs, log_xs = L.coq_crosscheck_sym(xs, "c18")
    ctx.cov["extraction_crosschecked_in_coq"] = n_xc + n_xs
    if not ok_xs:
        fails.append({"kind": "correspondence", "file": "extracted model vs vm_compute inside Coq (run_ops + document_symbol)", "log": log_xs})

    # ---------------- verdict
    def size_of(f):
        return len(f["text"]) if "text" in f else sum(len(t) for _n, t in f["files"])
    found["oracle"].sort(key=size_of)
    found["corr"].sort(key=size_of)
    seen_kinds = {}
    for f in found["oracle"]:
        k = f["kind"]
        if seen_kinds.get(k, 0) >= 2:
            continue
        seen_kinds[k] = seen_kinds.get(k, 0) + 1
        shown = L.text_repr(f["text"], 200) if "text" in f else L.text_repr(dict(f["files"])[f.get("file", f["root"])], 200)
        ctx.violation("%s (%s input) %s: expected %s, observed %s" % (
            f["kind"], f["source"], json.dumps(shown), json.dumps(f["expected"])[:300], json.dumps(f["observed"])[:300]),
            dict(f, property="C18", seed=ctx.seed,
                 oracle="folding: reference on the real tree + ranges known by construction; outline: document symbols known by construction"))
    if found["corr"]:
        fails.append({"kind": "correspondence", "file": "model-vs-implementation (outline_run fold / sym vs Analysis::folding_range / document_symbol)",
                      "count": len(found["corr"]), "first": found["corr"][:3]})
    vlib.broken_ties_to_violations(ctx, fails, bool(found["oracle"]))

    # ---------------- evidence
    ctx.cov["evaluations"] = stats["fold_texts"] + stats["files"]
    ctx.cov["distinct_nontrivial"] = len(distinct_nontrivial) + 0
    ctx.cov["rule"] = (
        "%d seeded generated workspaces (lib/outgen.py: classes with/without template arguments, parents, bodies; defs named/"
        "anonymous; defsets with defs; multiclasses with/without template arguments and parents; defm; foreach/if/let with a block or a "
        "single statement, nested up to depth 3; defvar; include of a second file; doc comments; LF or CRLF; non-ASCII text in comments "
        "and strings; body-less `class X`), every file compared with the outline and the folding ranges known by construction; "
        "folding additionally on %d damaged texts (random prefixes, every prefix of short programs, token deletions/duplications/swaps), "
        "%d hand-written edge cases and %d LLVM .td files: real tree -> extracted model vs real folding_range, reference on the real tree, "
        "laminarity; evaluations = files compared; a generated file is non-trivial when its outline has >= 2 entries and some entry has "
        "children; distinct = distinct texts" % (n_ws, len(dmg), len(L.HAND_TEXTS), len(corpus)))
    ctx.cov["input_distribution"] = dict(stats, features=dict(sorted(feature_count.items())))
    ctx.cov["fold_texts_with_two_or_more_ranges"] = stats["fold_nontrivial"]
    ctx.cov["oracle_failures"] = len(found["oracle"])
    ctx.cov["correspondence_disagreements"] = len(found["corr"])
    ctx.cov["traces_validated_against_impl"] = stats["fold_texts"] + stats.get("sym_workspaces", 0)
    ctx.cov["files_theorem"] = {"workspaces": stats.get("oix_workspaces", 0), "of_which_multi_file": stats.get("multi_file_workspaces", 0),
                                "hypotheses_hold (no modelled panic, decls_wf): then per file registered = declared, by C18_outline_files_complete":
                                stats.get("files_theorem_hypotheses_hold", 0)}
    ctx.cov["children_theorem"] = {"workspaces": stats.get("oix_workspaces", 0),
                                   "registration stream of the slice == AST-only visit (evaluated with the extracted model; C18_outline_children proves it whenever no modelled panic)":
                                   stats.get("children_stream_equal", 0)}
    ctx.cov["source_theorem"] = {"single_file_programs_without_include": stats.get("source_theorem_applicable", 0),
                                 "of_which_count_condition_holds (then registered declarations = source declarations, by C18_outline_source_complete)":
                                 stats.get("source_theorem_counts_agree", 0)}
    ctx.cov["indexer_slice_workspaces"] = stats.get("oix_workspaces", 0)
    ctx.cov["outline_from_texts_inside_coq"] = {"workspaces": stats.get("bridge_core", 0),
                                                "harness_ast_identical": stats.get("bridge_equal", 0),
                                                "bridge_unavailable_or_noncore": stats.get("bridge_none", 0)}
    ctx.cov["indexer_slice_ops_compared"] = stats.get("oix_ops", 0)
    ctx.cov["op_logs_replayed"] = stats.get("sym_workspaces", 0)
    ctx.cov["ops_replayed"] = stats.get("sym_ops", 0)
    smp = []
    for w, r in list(zip(wss, ide))[:2]:
        fn, tx = w["files"][-1]
        smp.append({"file": fn, "text": L.text_repr(tx, 300), "outline_observed": L.real_outline(r.get("symbols", {}).get(fn))[:4],
                    "folding_observed": (r.get("folding", {}).get(fn) or [])[:6]})
    ctx.cov["samples"] = smp
    ctx.cov["timing_s"] = {"setup_and_proof": round(t_setup, 1), "total": round(time.time() - t0, 1)}
    ctx.assumptions = [
        "texts shorter than 2^32 bytes (TextSize)",
        "an anonymous def inside a defset may or may not be listed as the defset's child (the statement speaks of named defs; "
        "the code lists it as anonymous_N): accepted either way, never alarmed on",
        "the outline oracle covers the Core fragment of DESIGN appendix D (every generated statement is visited by the indexer; field names "
        "distinct within one body); outside it only the folding part is checked",
        "parser / analysis panics on damaged input are C02/C03's subject: such inputs are skipped here",
    ]


def replay(ctx, path):
    r = json.load(open(path))
    if "text" not in r and "files" not in r:
        print(json.dumps(r, indent=1)[:3000])
        print("replay: this file names a broken proof obligation / tie, not an input; re-run ./check C18")
        return 1
    bindir = vlib.build_harness(False, bins=["parsedump", "idedump"])
    exe = vlib.build_model("outline")
    sk_index = L.sk_index_table()
    bad = False
    if "text" in r:
        stats = {"fold_texts": 0, "fold_ranges": 0, "fold_nontrivial": 0, "skipped_crash": 0}
        found = {"oracle": [], "corr": []}
        fold_cases_from_texts(ctx, bindir, exe, sk_index, [r["text"]], "replay", stats, found)
        tr = L.parsedump(bindir, [r["text"]])[0]
        ir = L.idedump(bindir, [L.ws_of_text(r["text"])])[0]
        print("text      :", json.dumps(r["text"]))
        print("recorded  : expected", r.get("expected"), "observed", r.get("observed"))
        print("impl now  :", ir.get("folding", {}).get("main.td") if isinstance(ir, dict) else ir)
        print("reference :", L.fold_reference(tr["tree"]) if "tree" in tr else tr)
        print("model now :", L.model_lines(exe, "fold", [L.tree_line(tr["tree"], r["text"], sk_index)])[0] if "tree" in tr else None)
        bad = bool(found["oracle"])
    else:
        ir = L.idedump(bindir, [{"files": r["files"], "root": r["root"], "offsets": "none", "hint_ranges": [], "completion": False}])[0]
        fn = r.get("file", r["root"])
        print("file      :", fn)
        print(dict((a, b) for a, b in r["files"])[fn])
        print("expected  :", json.dumps(r.get("expected")))
        if r.get("kind") == "outline":
            now = L.real_outline(ir.get("symbols", {}).get(fn))
            print("impl now  :", json.dumps(now))
            bad = not L.match_outline(r["expected"], now)
        else:
            now = ir.get("folding", {}).get(fn)
            print("impl now  :", json.dumps(now))
            bad = now != r["expected"]
    if bad:
        print("VIOLATION property=C18 replay=%s" % path)
        return 1
    print("replay: the implementation now agrees with the oracle on this input")
    return 0
