"""C03 Analysis totality: every IDE query answers on every workspace state.

Proof: TG.Props.C03 (Coq, partial): for ALL op sequences satisfying the id side conditions `ops_ids_wf` (ids
allocated before use, `x.add_*` after `x_mut`, `record.add_parent p` on record r only with p < r) no op of the
symbol-map model panics, the read-only API / goto_definition / references / iter_symbols_in_range never panic
at any position, and `find_field` / `is_subclass_of` terminate within fuel = number of records
(`C03_symbol_map_total_partial`); the fixes fb9cd66 (D3) and 751cf5a (D11) are shown necessary
(`C03_self_parent_diverges`, `C03_unguarded_range_query_panics`).
Tie (T): tools/translate/t_panicsites.py regenerates the inventory of every panic site of crates/ide/src (panic!,
unreachable!, unimplemented!, assert!, unwrap, expect, index expressions, asserting library calls) on every run;
`C03_panic_sites_inventoried` demands a disposition (proved at op level / oracle / other property) for each: a new
or moved site breaks the obligation.
Tie (C): real op log (hook H3) replayed through the extracted model; `ops_ids_wf` evaluated on every real log;
state and goto/references answers compared at every offset; find_field / is_subclass_of evaluated in the model
for every record x field name / record pair.
Oracle (the native-stack and whole-indexer part, not proved): ALL nine query kinds at ALL offsets (completion
with and without the `!` trigger, inlay hints for the whole file, random sub-ranges and empty ranges) on generated
programs, EVERY token prefix of a sample of them, single-token edits, semantic stress patterns (self / mutual
parents through redefinition, shadowing, overrides, let of unknown fields, defm in multiclass), multi-file
acyclic workspaces, in a child process with a 2 MiB analysis-thread stack and a timeout: panic, abort, stack
overflow or no answer within the limit is a violation."""
import json
import os
import re

import symgen
import symlib as L
import vlib

THEOREMS = ["C03_symbol_map_total_partial", "C03_unguarded_range_query_panics", "C03_self_parent_diverges_v0",
            "C03_diamond_exponential_v0", "C03_nonvacuous",
            "C03_panic_sites_inventoried", "C03_indexer_ids_valid_core", "C03_symbol_map_total_core",
            "C03_source_recursion_total", "C03_source_recursion_total_core"]
INDEXER_THEOREMS = ["C03_indexer_total_core", "C03_index_stmt_total", "C03_analyze_total", "C03_analyze_nonvacuous"]
INDEXER_TRANSLATORS = ["t_tokens", "t_lextables", "t_unicode", "t_grammar", "t_grammarcert", "t_foldkinds", "t_ast"]
INDEXER_TRUSTED = ("props/C03Indexer.v (group bridge; design/notes-bridge.md): group scope's indexer model Indexer.v sets s_bad at every modelled "
                   "panic / fuel exhaustion and never does (all Core workspaces); Pipeline.analyze returns (C02 + C16 + bridge + indexer); together "
                   "with C03_symbol_map_total_core the Core part of 'the analysis returns' is proved for the MODELS; Indexer.v = index.rs is the "
                   "checked state equality of checks/C06.py (bridge_to_indexer_model)")
TRUSTED = [
    "Coq 8.16.1 kernel; vm_compute only in the closed Examples / witnesses",
    "PARTIAL: proved for the symbol-map layer at op level (symbol_map.rs, symbol_map/record.rs recursion, goto_definition.rs, references.rs, "
    "the range query of inlay_hint.rs); the indexer (index.rs, index/*.rs), hover, completion, document_symbol, folding_range, document_link, "
    "diagnostics and the native stack are covered only by the oracle",
    "hook H3 logs every mutating SymbolMap call (cfg tablegen_lsp_verif)",
    "translator t_panicsites.py (regex scan of crates/ide/src up to the first #[cfg(test)] of each file)",
    "modelled, not verified: iset::IntervalMap (panics on an empty query / insert), id_arena, HashMap/IndexMap",
    "the oracle's stack bound (2 MiB, the size of a tokio worker stack) and time limit (20 s per workspace) are what 'overflow' and 'hang' mean here",
    "extraction (ExtrOcamlBasic), symmap_driver.ml, harness symdump.rs, lib/symlib.py, lib/symgen.py",
]

STRESS = [
    "class A : A { int x = y; }",
    "class A; class B : A; class A : B; class B : A { int x = y; } def d : A { let x = 1; }",
    "class A : A, A<A> { let x = x; }",
    "class A { int x; } class A : A { let x = x; int y = x.x; }",
    "def A : A; def A : A { int x = A.x; }",
    "multiclass M : M { defm X : M; } defm M : M;",
    "multiclass M<int a> { def X : M; defm Y : M<a>; foreach i = [a] in def Z#i; } defm D : M<1>, M;",
    "class A<A a = a> : A<a> { A x = a.x; }",
    "defset list<A> s = { def s : s; defset list<s> s = { } }",
    "foreach i = i in foreach i = [i] in def i#i { int i = i; }",
    "let x = x in { let x = x in class x : x { let x = x; } }",
    "class A { int x = !foldl(x, x, x, x, x); int y = !foreach(y, y, y); int z = !filter(z, z, z); }",
    "class A<int a, int a> { int a = a; let a = a; defvar a = a; int b = a; }",
    "if x then { class A; } else { class A : A; } class B : A;",
    "def : A; def : ; defm : ; defm : M; def \"x\"#a : A;",
    "class A { int x; } def d : A { let x{0} = 1; let x{1-2} = x; let y = x; }",
    "class A; def a : A; def b : A { A p = a; A q = b; int r = p.q.r; }",
    "include \"a.td\" include \"a.td\" class A : B;",
]


def layered(n, kind):
    """deep hierarchies in which every layer reaches the previous one along two paths (defect D35: lookups that search an
    ancestor once per PATH are exponential), followed by a failing field lookup through `let`, a field access on a def,
    and template-argument type checks that need is_subclass_of to fail after searching every ancestor"""
    if kind == "dup":
        s = "class C0 { int a; }\n" + "".join("class C%d : C%d, C%d;\n" % (i, i - 1, i - 1) for i in range(1, n + 1))
        top = "C%d" % n
    else:
        s = "class A0 { int a; }\n" + "".join(
            "class B%d : A%d; class C%d : A%d; class A%d : B%d, C%d;\n" % (i, i - 1, i, i - 1, i, i, i) for i in range(1, n + 1))
        top = "A%d" % n
    s += "def d : %s { let q = 1; let a = 2; }\n" % top
    s += "def e : %s;\ndefvar v = e.nofield;\ndefvar u = e.a;\n" % top
    s += "class Z;\nclass W<Z p>;\ndef w : W<e>;\nclass V<%s p>;\ndef z : Z;\ndef y : V<z>;\n" % top
    return s


ALL_BANG = ["add", "and", "cast", "con", "cond", "dag", "div", "empty", "eq", "exists", "filter", "find", "foldl", "foreach", "ge",
            "getdagarg", "getdagname", "getdagop", "gt", "head", "if", "initialized", "interleave", "isa", "le", "listconcat",
            "listflatten", "listremove", "listsplat", "logtwo", "lt", "mul", "ne", "not", "or", "range", "repr", "setdagarg",
            "setdagname", "setdagop", "shl", "size", "sra", "srl", "strconcat", "sub", "subst", "substr", "tail", "tolower",
            "toupper", "xor"]
BANG_ARITY = {"not": 1, "size": 1, "head": 1, "tail": 1, "empty": 1, "tolower": 1, "toupper": 1, "logtwo": 1, "listflatten": 1,
              "repr": 1, "initialized": 1, "getdagop": 1, "cast": 1, "isa": 1, "exists": 1, "if": 3, "subst": 3, "substr": 3,
              "foreach": 3, "filter": 3, "foldl": 5, "dag": 3, "setdagop": 2, "getdagarg": 2, "getdagname": 2, "setdagarg": 3,
              "setdagname": 3, "find": 3, "range": 2, "interleave": 2, "listsplat": 2, "listremove": 2}
OPERANDS = ["1", "-2", '"s"', "f", "a", "d0", "zz", "w", "[1, 2]", "[]", "[f]", "(d0 1, 2)", "(zz a:$n)", "K<1>", "K<zz>", "!add(1, 2)",
            "!foreach(i, [1], i)", "?", "true", "f.f", "d0.f", "{0, 1}", "f{0}", "[{ c }]", "NAME", "1 # 2", "i"]
TYPES = ["int", "string", "K", "list<int>", "bits<2>", "dag", "ZZ"]


def bangop_case(rng, op=None):
    """one bang-operator call (right arity, or one less / more) with every operand position drawn from OPERANDS, inside a
    record body that goes on with a field, a let and a defvar; the same call again at top level"""
    op = op or ALL_BANG[rng.randrange(len(ALL_BANG))]
    ar = BANG_ARITY.get(op, 2) + rng.choice([0, 0, 0, 0, -1, 1, 2])
    ar = max(0, ar)
    xs = [OPERANDS[rng.randrange(len(OPERANDS))] for _ in range(ar)]
    if op == "cond":
        call = "!cond(%s)" % ", ".join("%s: %s" % (x, OPERANDS[rng.randrange(len(OPERANDS))]) for x in xs)
    else:
        ty = "<%s>" % TYPES[rng.randrange(len(TYPES))] if (op in ("cast", "isa", "exists") or rng.random() < 0.1) else ""
        if rng.random() < 0.08:
            ty = "<"          # annotation cut short
        call = "!%s%s(%s)" % (op, ty, ", ".join(xs))
    call2 = "!%s(%s)" % (ALL_BANG[rng.randrange(len(ALL_BANG))], ", ".join(OPERANDS[rng.randrange(len(OPERANDS))] for _ in range(rng.randrange(0, 4))))
    return ("class K<int p = 0> { int f = 1; }\ndef d0 : K;\n"
            "class T<int a> : K {\n  int g = %s;\n  int h = g;\n  let f = %s;\n  defvar w = g;\n  int k = w;\n}\n"
            "defvar top = %s;\ndef after : T<1> { let f = 3; int m = top; }\n"
            "multiclass MC<int a> { def X : K { int g = %s; } defvar w = 1; def Y : K<w>; }\ndefm mm : MC<2>;\n"
            % (call, rng.choice(["2", call2, call]), call, call))


ARG_POOL = ["1", "d0", "zz", '"s"', "[1]", "?", "a = 1", "lo = 2", "hi = 3", "x = 4", 'y = "q"', "z = [1]", "qq = 5", '"a" = 1', '"lo" = 2',
            '"nope" = 3', "1 = 2", "[1] = 2", "!add(1, 2) = 3", "K<1> = 4", "? = 5", "lo = 2", "a = zz", "1", "2", "!add(zz, 1)", "d0.f"]


BINDERS = ["acc", "i", "f", "1", '"s"', "?", "[1]", "a.b", "!add(1, 2)", "K<1>", "x # y", "$v"]
LISTS = ["[1, 2]", "xs", "[f, 2]", "f", "[]", '["a"]', "!listconcat([1], xs)", "zz"]


def binder_cases():
    """!foreach / !filter / !foldl with every combination of usable and unusable bound names over typed and untyped lists,
    in a record body that continues with a field, a let and a defvar (scope-stack balance), and at top level"""
    out = []
    for li in LISTS:
        for b1 in BINDERS:
            calls = ["!foreach(%s, %s, !add(%s, 1))" % (b1, li, b1 if b1.isalpha() else "f"),
                     "!filter(%s, %s, !eq(%s, 1))" % (b1, li, b1 if b1.isalpha() else "f")]
            calls += ["!foldl(0, %s, %s, %s, !add(%s, 1))" % (li, b1, b2, b1 if b1.isalpha() else "f") for b2 in BINDERS]
            body = "".join("  int g%d = %s;\n" % (i, c) for i, c in enumerate(calls))
            out.append("defvar xs = [1, 2, 3];\nclass K<int p = 0> { int f = 1; }\n"
                       "class T<int a> : K {\n%s  int h = 2;\n  let f = 3;\n  defvar w = h;\n  int k = w;\n}\n"
                       "defvar top = %s;\ndefvar top2 = top;\ndef after : T<1> { let f = 4; }\n" % (body, calls[-1]))
            for c in calls[::5]:
                out.append("defvar xs = [1, 2, 3];\nclass T { int f = 1; int g = %s; int h = f; let f = 2; }\ndefvar t = %s;\ndefvar u = t;\n" % (c, c))
    return out


def arglist_case(rng):
    """argument lists (length 0 .. declared parameters + 3) over positional / named / malformed-named / duplicate arguments, for class
    references, class values, defm parents and multiclass parents, against classes and multiclasses with 0..3 parameters"""
    decl = ("class K<int p = 0> { int f = 1; }\ndef d0 : K;\n"
            "class P0;\nclass P1<int a>;\nclass P2<int lo, int hi>;\nclass P3<int x, string y = \"d\", list<int> z = []>;\n"
            "multiclass M0 { def X : P0; }\nmulticlass M1<int a> { def X : P1<a>; }\nmulticlass M2<int lo, int hi = 1> { def X : P2<lo, hi>; }\n")

    def args(npar):
        n = rng.randrange(0, npar + 4)
        return ", ".join(ARG_POOL[rng.randrange(len(ARG_POOL))] for _ in range(n))
    out = [decl]
    for _ in range(rng.randrange(2, 6)):
        k = rng.randrange(3 + 1)
        cls = "P%d" % k
        m = rng.randrange(3)
        form = rng.randrange(6)
        if form == 0:
            out.append("def : %s<%s>;\n" % (cls, args(k)))
        elif form == 1:
            out.append("class E%d : %s<%s>, P0 { int q = 1; let q = 2; }\n" % (rng.randrange(9), cls, args(k)))
        elif form == 2:
            out.append("defvar v%d = %s<%s>;\n" % (rng.randrange(9), cls, args(k)))
        elif form == 3:
            out.append("defm m%d : M%d<%s>;\n" % (rng.randrange(9), m, args(m)))
        elif form == 4:
            out.append("multiclass N%d<int a> : M%d<%s> { def Z : %s<%s>; }\n" % (rng.randrange(9), m, args(m), cls, args(k)))
        else:
            out.append("def g%d : K { int f2 = %s<%s>.f; list<K> l = [%s<%s>]; }\n" % (rng.randrange(9), cls, args(k), cls, args(k)))
    out.append("def after : K { int z = 1; let f = 2; }\ndefvar last = after.z;\n")
    return "".join(out)


def std_hints(fs):
    """inlay-hint ranges used when re-running a (shrunk) failing input: whole file, and empty ranges at a few offsets"""
    out = []
    for p, t in fs:
        n = len(t.encode("utf-8"))
        b = set(L._boundaries(t))
        out += [[p, 0, n], [p, 0, 0]] + [[p, k, k] for k in (1, 2, 3, 5, 8, 13, n) if k in b and 0 < k <= n]
    return out


def gen_inputs(ctx):
    g = symgen.Gen(ctx.rng)
    wss, kinds = [], []

    def add(kind, files, root):
        wss.append(L.mk_ws(files, root, ctx.rng, hover=True, completion=True, hints="sample"))
        kinds.append(kind)
    n_base = 120 if ctx.quick else 1800
    for kind, files, root in L.derived_workspaces(g, ctx.rng, n_base, 4, 6, 1):
        add(kind, files, root)
    # every token prefix of a few programs
    for _ in range(10 if ctx.quick else 300):
        t = g.program(ctx.rng.randrange(2, 5))
        for p in symgen.prefixes(t, ctx.rng, 10 ** 6):
            add("every-prefix", [["/w/main.td", p]], "/w/main.td")
    for s in STRESS:
        fs = [["/w/main.td", s], ["/w/a.td", "class B : A; class A : B;"]]
        add("stress", fs, "/w/main.td")
        for p in symgen.prefixes(s, ctx.rng, 10 ** 6):
            add("stress-prefix", [["/w/main.td", p], fs[1]], "/w/main.td")
        for p in symgen.token_edits(s, ctx.rng, 6 if ctx.quick else 40):
            add("stress-edit", [["/w/main.td", p], fs[1]], "/w/main.td")
    # grammar-aware families: bang-operator operand fuzz (every operator of the lexer table at least twice) and argument-list fuzz
    for rep in range(2 if ctx.quick else 12):
        for op in ALL_BANG:
            add("bangop-fuzz", [["/w/main.td", bangop_case(ctx.rng, op)]], "/w/main.td")
    for _ in range(150 if ctx.quick else 1200):
        add("bangop-fuzz", [["/w/main.td", bangop_case(ctx.rng)]], "/w/main.td")
    bc = binder_cases()
    if ctx.quick:
        bc = ctx.rng.sample(bc, 160)
    for t in bc:
        add("binder-fuzz", [["/w/main.td", t]], "/w/main.td")
    for _ in range(300 if ctx.quick else 2500):
        add("arglist-fuzz", [["/w/main.td", arglist_case(ctx.rng)]], "/w/main.td")
    for n in ((30, 40) if ctx.quick else (26, 30, 34, 40)):
        for kind in ("dup", "diamond"):
            add("layered-hierarchy", [["/w/main.td", layered(n, kind)]], "/w/main.td")
    # user-chosen names colliding with generated anonymous names (single, consecutive pairs / triples; def and defm; defsets)
    for _ in range(40 if ctx.quick else 300):
        add("name-collision", [["/w/main.td", g.collision_program()]], "/w/main.td")
    # doc comments whose first character after the slashes is multi-byte whitespace (hover reads them)
    for t in symgen.doc_space_cases(ctx.rng, 30 if ctx.quick else 200):
        add("doc-space", [["/w/main.td", t]], "/w/main.td")
        add("doc-space", [["/w/main.td", symgen.inject_nonascii(t, ctx.rng)]], "/w/main.td")
    # re-edit family: set_file_content only (no set_root_file) with the same tokens and different trivia, then every query again
    for files, root, reedit in symgen.reedit_cases(g, ctx.rng, 30 if ctx.quick else 200):
        add("re-edit", files, root)
        wss[-1]["reedit"] = reedit
    return wss, kinds


def corpus_inputs(ctx):
    if ctx.quick:
        return []
    os.environ["INCLUDE_DIR"] = "/c"
    out = []
    for files, root in L.corpus_workspaces(ctx.rng, 12, 21000):
        out.append(L.mk_ws(files, root, ctx.rng, hover=True, completion=True, hints="full"))
    return out


def run(ctx):
    bindir = vlib.build_harness(True, bins=["symdump"])
    fails = vlib.proof_step(ctx, "TG.Props.C03", THEOREMS, ["props/C03.vo"], TRUSTED, translators=["t_panicsites", L.SOURCE_TRANSLATOR] + INDEXER_TRANSLATORS + ["t_completion"])
    L.source_tie(ctx, fails)
    # group bridge: the indexer model never reaches a modelled panic / fuel exhaustion; the model pipeline returns
    L.extra_props(ctx, fails, "TG.Props.C03Indexer", INDEXER_THEOREMS, "props/C03Indexer.vo", INDEXER_TRUSTED)
    # builder bridge: the complete analysis (all nine queries from the texts) is total; its queries agree with abs (index_ws w)
    L.pipeline_all(ctx, fails)
    try:
        gen = open(vlib.COQ + "/gen/GenPanicSites.v").read()
        ctx.cov["panic_sites_inventoried"] = gen.count("%nat)")
        disp = open(vlib.COQ + "/proofs/SymbolPanicSites.v").read()
        ctx.cov["panic_sites_by_disposition"] = {k: disp.count("%nat), " + k) for k in ("Proved", "Oracle", "OutOfScope")}
    except OSError:
        pass
    exe = vlib.build_model("symmap")
    wss, kinds = gen_inputs(ctx)
    res = L.evaluate(bindir, exe, wss)
    cws = corpus_inputs(ctx)
    cres = []
    if cws:
        cres = L.evaluate(bindir, exe, cws, timeout=900, with_text=False)
        os.environ.pop("INCLUDE_DIR", None)
    found = False
    n_q = n_rec = 0
    nontrivial = set()
    by_kind = {}
    bad_inputs, ties, samples = [], [], []
    for e, kind in list(zip(res, kinds)) + [(e, "corpus") for e in cres]:
        by_kind[kind] = by_kind.get(kind, 0) + 1
        if e["c03"] is not None:
            bad_inputs.append((e, kind))
            continue
        r = e["real"]
        n_q += r["queries"]
        if len(r["oplog"] or []) >= 3:
            nontrivial.add(vlib.sha(json.dumps(e["ws"]["files"])))
        m = e["model"]
        if m is None or "model_crash" in m:
            ties.append((e, "model did not run: %s" % (m or {}).get("model_crash")))
            continue
        n_rec += m["recursion"]["find_field"] + m["recursion"]["is_subclass_of"]
        if e["diffs"]:
            ties.append((e, "correspondence: " + e["diffs"][0]))
        elif m["ids_bad"] is not None:
            ties.append((e, "hypothesis ops_ids_wf fails on the real op log at op %d: %s" % (m["ids_bad"], r["oplog"][m["ids_bad"]])))
        elif m["recursion"]["find_field_err"] or m["recursion"]["is_subclass_of_err"] or m["query_errors"]:
            ties.append((e, "model query fails although ops_ids_wf holds (contradicts the theorem: extraction/driver fault)"))
        elif m["range_queries"] and any(isinstance(v.get("empty"), str) for v in m["range_queries"].values()):
            ties.append((e, "model: guarded empty range query fails"))
        if len(samples) < 3 and len(r["oplog"] or []) >= 8 and len(json.dumps(e["ws"]["files"])) < 500:
            samples.append({"files": e["ws"]["files"], "root": e["ws"]["root"], "kind": kind, "queries": r["queries"]})
    bad_inputs.sort(key=lambda t: len(json.dumps(t[0]["ws"]["files"])))
    seen = set()
    for e, kind in bad_inputs:
        cls = re.sub(r"[0-9]+", "N", e["c03"])[:80]
        if cls in seen or len(seen) >= 3:
            continue
        seen.add(cls)
        files = e["ws"]["files"]
        if kind != "corpus":
            def pred(fs, root=e["ws"]["root"], w0=e["ws"]):
                w = dict(w0)
                w["files"] = fs
                w["hint_ranges"] = std_hints(fs)
                rr = L.run_symdump(bindir, [w], timeout=30)[0]
                return L.c03_problem(rr) is not None
            if pred(files):
                files = L.shrink_files(files, e["ws"]["root"], pred, 20)
        ctx.violation("C03 violated on the real analysis: %s" % e["c03"],
                      {"property": "C03", "files": files, "root": e["ws"]["root"], "original_files": e["ws"]["files"],
                       "hint_ranges": std_hints(files), "reedit": e["ws"].get("reedit"), "what": e["c03"], "seed": ctx.seed, "kind": kind,
                       "failing_workspaces_in_this_run": len(bad_inputs)})
        found = True
    # extraction cross-check: the same side conditions and answers evaluated by vm_compute inside Coq
    xc = [(e["ws"], e["real"], e["model"]) for e in res
          if e["model"] and e["model"].get("run") == "ok" and not e["diffs"] and 10 <= len(e["real"]["oplog"] or []) <= 150][:6]
    ok_xc, msg_xc = L.coq_crosscheck(xc, "C03")
    if not ok_xc:
        ties.append((res[0], "extraction cross-check: Coq's vm_compute disagrees with the extracted model: " + msg_xc[-300:]))
    if ties and not found:
        e, why = min(ties, key=lambda t: len(json.dumps(t[0]["ws"]["files"])))
        fails.append({"kind": "correspondence", "file": why})
        ctx.violation("C03 tie broken (no failing input found by the oracle): " + why,
                      {"property": "C03", "broken": why, "files": e["ws"]["files"], "root": e["ws"]["root"],
                       "disagreeing_workspaces": len(ties), "seed": ctx.seed}, no_failing_input=True)
        found = True
    ctx.cov.update({
        "evaluations": n_q,
        "distinct_nontrivial": len(nontrivial),
        "rule": "queries = diagnostics, document_symbol, folding_range, document_link per file; goto_definition, references, hover, completion (no trigger "
                "and `!`) at every char-boundary offset 0..=len of every workspace file; inlay_hint for the whole file, 3 random sub-ranges, a random "
                "empty range and 0..0. Inputs: lib/symgen workspaces (single / chain / star / diamond / missing include / include in blocks, all acyclic) "
                "with token prefixes, single-token edits, non-ASCII injection; EVERY token prefix of a sample of programs; %d hand-written semantic "
                "stress programs with all their prefixes and token edits; layered duplicate-parent / diamond hierarchies (30-40 layers); bang-operator "
                "operand fuzz (every operator of the lexer table, arity 0/-1/+1/+2, operands from 27 kinds, inside a record body that continues with "
                "field / let / defvar, at top level and in a multiclass) and argument-list fuzz (positional / named / malformed-named / duplicate "
                "arguments, length 0..params+3, for class refs, class values, defm and multiclass parents); thorough adds LLVM-14 corpus roots. non-trivial = distinct workspace whose "
                "indexing makes >= 3 symbol-map calls" % len(STRESS),
        "workspaces": len(wss) + len(cws),
        "workspaces_by_kind": by_kind,
        "model_recursion_evaluations": n_rec,
        "traces_validated_against_impl": sum(1 for e in res + cres if e["model"] is not None and not e["diffs"] and "model_crash" not in e["model"]),
        "correspondence_disagreements": len(ties),
        "extraction_crosschecked_in_coq": len(xc),
        "failing_workspaces": len(bad_inputs),
        "hypotheses_checked_on_real_logs": ["ops_ids_wf"],
        "stack_limit": "2 MiB analysis thread", "time_limit_s": 20,
        "samples": samples,
        "exhaustive": False,
    })
    ctx.assumptions += ["partial proof: symbol-map layer proved at op level; indexer, remaining handlers and native stack by oracle only",
                        "include cycles are outside the property (C16)"]
    vlib.broken_ties_to_violations(ctx, fails, found)


def replay(ctx, path):
    obj = json.load(open(path))
    bindir = vlib.build_harness(True, bins=["symdump"])
    exe = vlib.build_model("symmap")
    fs = obj["files"]
    hr = obj.get("hint_ranges")
    w = {"files": fs, "root": obj["root"], "hover": True, "completion": True,
         "hint_ranges": hr if isinstance(hr, list) else std_hints(fs)}
    if obj.get("reedit"):
        w["reedit"] = obj["reedit"]
    e = L.evaluate(bindir, exe, [w])[0]
    print("implementation:", e["c03"] or "all queries answered (%d)" % e["real"]["queries"])
    if e["c03"] is None:
        m = e["model"] or {}
        print("model: run=%s ids_bad=%s recursion=%s" % (m.get("run"), m.get("ids_bad"), m.get("recursion")))
        print("correspondence differences:", e["diffs"][:5])
    bad = e["c03"] is not None or bool(e["diffs"]) or (e["model"] or {}).get("ids_bad") is not None
    print("REPRODUCED" if bad else "not reproduced")
    return 1 if bad else 0
