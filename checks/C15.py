"""C15 Preprocessor: conditional regions select exactly the enabled tokens.

1. harness `prepdump` (PreProcessor<Lexer> token stream, errors taken exactly as ParserBase::save takes them,
   final macro set), `parsedump` (syntax::parse tree / leaves / errors()), `lexdump` (raw lexer tokens) are built
   against the current tree;
2. the Coq cone props/C15.vo is re-checked (theorems over ALL arrangements / ALL texts), Print Assumptions,
   forbidden-declaration scan;
3. inputs: (a) EXHAUSTIVE all sequences of length 0..L over {#define #ifdef #ifndef #else #endif A B ;} joined by a
   newline (L = 6 quick / 7 thorough), plus slices joined by one blank and with a comment between a directive and
   what follows; (b) RANDOM nested programs (real TableGen statements, comments and strings that contain
   directive-looking text, lexical garbage in disabled branches, #define in disabled branches, #else at depth >= 2)
   with unterminated / missing-name / name-less-in-disabled / swallowed-#endif variants;
4. ORACLE (lib/preplib.py ref_eval + judge): a reference evaluator of the conditionals over the raw token list,
   written from the property text; rules
     (i)   well nested, all enabled directives named: delivered non-trivia tokens == selected tokens (kind, range,
           lexer message), no preprocessor diagnostic, final macros equal; same at parse level (leaves, errors());
           metamorphic: parse(text) == parse(text with every unselected token blanked) modulo trivia, same messages;
     (ii)  enabled directive without a name: the matching message is an Error token and in Parse::errors(); tokens
           selected before it delivered exactly; nothing demanded after it;
     (iii) EOF inside an open conditional: "reached EOF without matching #endif" is an Error token and in
           Parse::errors(); selected tokens delivered exactly;
     (iv)  stray #else/#endif, second #else: the property is silent (only model-vs-real is compared);
5. CORRESPONDENCE: real stream == stream of the extracted Coq model (`prepspec_run prepm`) under the projection
   (kind, byte length, error text), final macro sets equal; SPEC TIE: on every input that is an arrangement of
   PrepSpec.v the extracted Coq SPEC (`prepspec_run select`: items_ok, render_items = raw_lex, select,
   select_partial, disabled) == the reference evaluator.
"""
import hashlib
import json
import os
import time
from concurrent.futures import ProcessPoolExecutor

import vlib
import preplib as P

# ---- the proof obligations (coq/props/C15.v); everything below works independently of this list
THEOREMS = ["C15_selects", "C15_selects_nontrivia", "C15_selects_text", "C15_selects_lexed", "C15_disabled_invisible",
            "C15_disabled_covered", "C15_unterminated", "C15_unterminated_lexed", "C15_missing_name", "C15_missing_name_lexed",
            "C15_parse_leaves_any_program", "C15_disabled_no_nodes", "C15_errors_any_program", "C15_disabled_no_errors",
            "C15_errors_skip_first", "C15_errors_grammar", "C15_disabled_no_errors_grammar",
            "C15_model_is_source", "C15_prep_next_is_source"]
# ---- the parser primitives (coq/props/SyntaxSource.v): parser.rs by translation + proof, checked in a second proof step
SOURCE_THEOREMS = ["Parser_prims_are_source_relation", "Parser_prims_are_source_new", "Parser_prims_are_source_lex",
                   "Parser_prims_are_source_save", "Parser_prims_are_source_skip", "Parser_prims_are_source_eat",
                   "Parser_prims_are_source_exec", "Parser_prims_are_source_at_eof_expect", "Parser_prims_are_source_finish",
                   "Parser_prims_are_source_interp", "Parser_prims_are_source_parse"]
SOURCE_TRUSTED = [
    "parser.rs by translation: tools/translate/t_parser.py (+ the tokenizer / parser / rendering rules inherited from t_lexer.py, t_prep.py) and "
    "coq/model/ParserMonad.v (state of ParserBase<PreProcessor<Lexer>>, Rust control flow, assert!/expect as Panic, TextRange::new, usize->TextSize "
    "assumed to fit, Vec push order); rowan's GreenNodeBuilder = the contract ParserPrims.b_* as before; lexer.rs / preprocessor.rs by translation: "
    "t_lexer.py + ScanMonad.v, t_prep.py + PrepMonad.v",
]
TRUSTED = [
    "Coq 8.16.1 kernel (coqc); Print Assumptions of every theorem is checked against the allow-list (none)",
    "statement of the specification coq/model/PrepSpec.v (items, items_ok, render_items, select, partial arrangements, missing_name), "
    "read against the property text; tied to the independent Python reference evaluator by `prepspec_run select` on every arrangement of this run",
    "hand-written model of preprocessor.rs in coq/model/Prep.v (+ PrepRun.v observers) and of lexer.rs in coq/model/Lexer.v, "
    "tied to the code by the correspondence run of this check (stream of kind:bytelen:error and final macro set)",
    "generated tables coq/gen/GenTokens.v, GenLexTables.v (translators t_tokens, t_lextables, t_unicode re-run on the current tree)",
    "modelled Rust std contracts: HashSet<EcoString> insert/contains as a set of names, usize::saturating_sub, str slicing by lexer cursors",
    "Coq extraction (ExtrOcamlBasic only) and the OCaml driver coq/extract/prepspec_driver.ml",
    "Rust harness harness/src/bin/{prepdump,parsedump,lexdump}.rs, this Python driver and lib/preplib.py (reference evaluator, structure parser)",
    "parser level (C15_parse_leaves_any_program, C15_disabled_no_nodes, C15_disabled_no_errors*): proved on b-parser's model of parser.rs / the grammar DSL "
    "(coq/model/ParserPrims.v, GInterp.v, gen/GenGrammar.v), which is tied to the code by C01/C02's correspondence and here by the parse-level oracle and the "
    "metamorphic parse comparison; that the INDEXER ignores trivia (no declaration from a PreProcessor leaf) is C03/C05's part, exercised here only through parse trees",
]
BINS = ["prepdump", "parsedump", "lexdump"]
MAXKEEP = 12


def h8(s):
    return int.from_bytes(hashlib.blake2b(s.encode("utf-8"), digest_size=8).digest(), "big")


def brief(r):
    """replayable record of one examined text"""
    ev = r.get("ev") or {}
    return {"text": r["text"], "class": r.get("cls"), "fails": r["fails"], "corr": r["corr"],
            "spec": r["spec"] if r["spec"] not in ("n/a", None) else None,
            "real": r.get("real"), "real_macros": r.get("real_macros"), "model": r.get("model"),
            "model_macros": r.get("model_macros"), "parse_errors": r.get("parse_errors"),
            "oracle": {"class": ev.get("cls"), "macros": ev.get("macros"), "stop": ev.get("stop"),
                       "selected": [[r["raw"][i][0], r["raw"][i][1], r["raw"][i][2]] for i in ev.get("selected", [])
                                    if r["raw"][i][0] not in P.TRIVIA][:200]} if ev else None,
            "tag": r.get("tag")}


def process_chunk(args):
    """one worker: examines the texts of a chunk; returns statistics and bounded lists of findings"""
    bindir, exe, repo, desc = args
    tab = P.Tables(repo)
    if desc[0] == "exh":
        texts = P.chunk_texts(desc)
        tags = [desc[1]] * len(texts)
        meta = False
        group = "exhaustive-" + desc[1]
    else:
        texts = [t for t, _tag in desc[1]]
        tags = [tag for _t, tag in desc[1]]
        meta = True
        group = "random"
    t0 = time.time()
    res = P.examine(bindir, exe, tab, texts, parse=True, meta=meta, spec=True)
    st = {"texts": len(texts), "by_group": {group: len(texts)}, "by_class": {}, "by_tag_class": {}, "depth_hist": {},
          "nontrivial": 0, "with_else": 0, "else_at_depth2_enabled": 0, "else_at_depth2_disabled": 0,
          "endif_deep_disabled": 0, "define_ignored_in_disabled": 0, "nameless_in_disabled": 0,
          "lexerr_in_disabled": 0, "lexerr_selected": 0, "spec_tied": 0, "spec_tied_partial": 0, "spec_tied_missing_name": 0,
          "metamorphic_pairs": 0, "parsed": 0, "selected_tokens_compared": 0, "rule_ii_checked": 0,
          "rule_iii_checked": 0, "rule_i_checked": 0, "rule_iv_silent": 0, "oracle_failures": 0, "cpu_s": 0.0}
    ofail, cfail, sfail, hashes, samples = [], [], [], [], []
    kept = {}
    for r, tag in zip(res, tags):
        r["tag"] = tag
        cls = r["cls"]
        st["by_class"][cls] = st["by_class"].get(cls, 0) + 1
        key = "%s/%s" % (tag, cls)
        st["by_tag_class"][key] = st["by_tag_class"].get(key, 0) + 1
        ev = r["ev"]
        if ev is not None:
            s = ev["stats"]
            d = str(s["maxdepth"])
            st["depth_hist"][d] = st["depth_hist"].get(d, 0) + 1
            if s["cond"] >= 1:
                st["nontrivial"] += 1
                hashes.append(h8(r["text"]))
            st["with_else"] += 1 if s["else"] else 0
            st["else_at_depth2_enabled"] += 1 if s["else_deep_enabled"] else 0
            st["else_at_depth2_disabled"] += 1 if s["else_deep_disabled"] else 0
            st["endif_deep_disabled"] += 1 if s["endif_deep_disabled"] else 0
            st["define_ignored_in_disabled"] += 1 if s["define_ignored"] else 0
            st["nameless_in_disabled"] += 1 if s["nameless_in_disabled"] else 0
            st["lexerr_in_disabled"] += 1 if s["lexerr_disabled"] else 0
            st["lexerr_selected"] += 1 if s["lexerr_selected"] else 0
            st["selected_tokens_compared"] += len(ev["selected"])
            st[{"i": "rule_i_checked", "ii": "rule_ii_checked", "iii": "rule_iii_checked", "iv": "rule_iv_silent"}[cls]] += 1
        if r["spec"] is None:
            st["spec_tied"] += 1
            st["spec_tied_partial"] += 1 if r.get("spec_partial") else 0
            st["spec_tied_missing_name"] += 1 if r.get("spec_missing") else 0
        st["metamorphic_pairs"] += 1 if r["meta"] else 0
        st["parsed"] += 1 if r.get("parse_errors") is not None else 0
        if r["fails"]:
            st["oracle_failures"] += 1
            # keep a few per class of the oracle (and separately those seen only by the metamorphic form)
            g = (cls, all("metamorphic" in x["rule"] for x in r["fails"]))
            kept[g] = kept.get(g, 0) + 1
            if kept[g] <= 4:
                ofail.append(brief(r))
        if r["corr"] and len(cfail) < MAXKEEP:
            cfail.append(brief(r))
        if r["spec"] not in (None, "n/a") and len(sfail) < MAXKEEP:
            sfail.append(brief(r))
    # two sample cases per chunk kind (actual observations)
    for r in res:
        if r["ev"] is not None and r["ev"]["stats"]["cond"] >= 2 and len(samples) < 1:
            samples.append({"text": r["text"][:400], "class": r["cls"], "macros": r["ev"]["macros"],
                            "selected_nontrivia": len(P.expected_tokens(r["raw"], r["ev"]["selected"])),
                            "real_stream": (r.get("real") or "")[:300], "spec_tie": "agrees" if r["spec"] is None else str(r["spec"])[:80]})
    st["cpu_s"] = round(time.time() - t0, 2)
    return st, ofail, cfail, sfail, hashes, samples


def merge(a, b):
    for k, v in b.items():
        if isinstance(v, dict):
            merge(a.setdefault(k, {}), v)
        else:
            a[k] = a.get(k, 0) + v


def gen_random(ctx, n_base, maxdepth):
    """(text, tag) list; the distribution of target depths is recorded"""
    rng = ctx.rng
    g = P.Gen(rng, maxdepth)
    out, target_hist, progs = [], {}, {}
    seen = set()

    def add(pieces, tag):
        t = P.text_of(pieces)
        if t in seen:
            return
        seen.add(t)
        out.append((t, tag))
        progs[t] = pieces

    for i in range(n_base):
        d = 1 + (i % maxdepth) if i % 3 else rng.randint(1, maxdepth)
        target_hist[str(d)] = target_hist.get(str(d), 0) + 1
        p = g.program(d)
        add(p, "well-nested")
        x = i % 10
        if x in (0, 1, 2):
            v = P.variant_unterminated(rng, p)
            if v:
                add(v, "unterminated")
        elif x in (3, 4, 5):
            v, how = P.variant_missing_name(rng, p)
            if v:
                add(v, "missing-name-" + how)
        elif x == 6:
            v, how = P.variant_define_eof(rng, p)
            add(v, how)
        elif x == 7:
            v = P.variant_nameless_in_disabled(rng, p)
            if v:
                add(v, "nameless-in-disabled")
        elif x == 8:
            v = P.variant_swallow(rng, p)
            if v:
                add(v, "swallowed-endif")
    return out, target_hist, progs


CORPUS = [
    ("#ifdef X\nclass A;", "D16a"), ("#define X\n#ifdef X\nclass A;", "D16b"),
    ("#ifdef X\nclass A;\n#else\nclass B;", "D16"), ("#define X\n#ifdef X\nclass A;\n#else\nclass B;", "D16"),
    ("#ifdef A\n#ifdef B\n#else\nclass X;\n#endif\n#else\nclass Y;\n#endif\nclass Z;", "else-depth2-disabled"),
    ("#define A\n#ifdef A\n#ifndef A\nclass P;\n#else\nclass Q;\n#endif\n#else\n#ifdef A\n#else\n#endif\nclass R;\n#endif\n", "else-depth2-enabled"),
    ("#ifndef A\n#define A\n#endif\n#ifdef A\ndef d;\n#endif", "define-then-use"),
    ("#ifdef A\n#define B\n#endif\n#ifdef B\ndef d;\n#endif\ndef e;", "define-in-disabled"),
    ("#ifdef", "name-eof"), ("#ifndef\n", "name-eof"), ("#define", "name-eof"), ("#ifdef ;", "name-semi"),
    ("#define\nclass A;", "name-keyword"), ("#ifndef \"A\"\n#endif", "name-string"),
    ("#ifdef A\n\"unterminated\n!nosuch 0b $ ..\n#endif\nclass C;", "garbage-disabled"),
    ("class A; // #ifdef X\n/* #else */ def \"#endif\";", "directive-looking-trivia"),
    # a lexical error inside a DISABLED region, later a preprocessor error (C15-mut4: the parked lexer message must
    # not surface as an extra diagnostic)
    ("#ifdef X\n@\n#endif\ndef v;\n#ifdef", "lexerr-disabled-then-missing-name"),
    ("#ifdef X\n!nosuchop\n#endif\ndef v;\n#define", "lexerr-disabled-then-missing-name"),
    ("#ifdef X\n..\n#endif\n#ifndef Y\nclass A;", "lexerr-disabled-then-unterminated"),
    ("#ifndef X\ndef a;\n#else\n\"abc\n#endif\n#ifdef ;", "lexerr-disabled-then-missing-name"),
    ("#ifdef X\n[{ never closed\n", "lexerr-disabled-then-unterminated"),
    ("#ifdef X\n@\n#else\n#ifdef Y\n$\n", "lexerr-disabled-then-unterminated"),
    ("#ifdef X\ndef hidden;\n#endif\ndef visible;\n#ifdef\n", "clean-disabled-then-missing-name"),
]


def shrink(bindir, exe, tab, pieces, rules):
    """drop pieces while an oracle rule of the original failure still fails (delta debugging, small budget)"""
    budget = [120]

    def failing(ps):
        if budget[0] <= 0:
            return False
        budget[0] -= 1
        r = P.examine(bindir, exe, tab, [P.text_of(ps)], parse=True, meta=True, spec=False)[0]
        return any(f["rule"] in rules for f in r["fails"])

    n = 2
    while len(pieces) >= 2 and budget[0] > 0:
        size = max(1, len(pieces) // n)
        reduced = False
        for i in range(0, len(pieces), size):
            cand = pieces[:i] + pieces[i + size:]
            if cand and failing(cand):
                pieces, reduced = cand, True
                n = max(n - 1, 2)
                break
        if not reduced:
            if size == 1:
                break
            n = min(len(pieces), n * 2)
    return pieces


def run(ctx):
    t0 = time.time()
    bindir = vlib.build_harness(False, bins=BINS)
    t_h = time.time() - t0
    skip_proof = os.environ.get("C15_SKIP_PROOF") == "1"      # development only
    if skip_proof:
        fails = []
        ctx.cov["proof_step_skipped_DEVELOPMENT_ONLY"] = True
    else:
        fails = vlib.proof_step(ctx, "TG.Props.C15", THEOREMS, ["props/C15.vo"], TRUSTED,
                                translators=["t_tokens", "t_lextables", "t_unicode", "t_lexer", "t_prep"])
        # a translator that refuses the source leaves its previous output in coq/gen: theorems about that output are
        # NOT established for the current tree, whatever coqc says about the stale file
        tr_failed = {f["translator"] for f in fails if f.get("kind") == "translator"}
        if tr_failed:
            stale = set(THEOREMS) if tr_failed - {"t_lexer", "t_prep"} else {t for t in THEOREMS if t.endswith("_is_source")}
            ctx.cov["stale_generated_input"] = {"translators_failed": sorted(tr_failed), "theorems_not_established": sorted(stale)}
            ctx.cov["discharged"] = max(0, ctx.cov.get("discharged", 0) - len([t for t in stale if ctx.cov.get("axioms_per_theorem", {}).get(t) == []]))
        cone = P.coq_cone("props/C15.v")
        ctx.cov["coq_cone"] = sorted(cone)
        fails = [f for f in fails if not (f.get("kind") == "forbidden-declaration"
                                          and f.get("where", "").split(":")[0] not in cone)]
        # ---- the parser primitives are the source (props/SyntaxSource.v, translator t_parser): a separate cone whose
        # obligations are added to the same evidence record
        c1 = {k: ctx.cov.get(k) for k in ("obligations", "discharged", "theorems", "axioms_per_theorem", "checker_cmd",
                                          "translators", "coq_wall_s")}
        fails2 = vlib.proof_step(ctx, "TG.Props.SyntaxSource", SOURCE_THEOREMS, ["props/SyntaxSource.vo"], TRUSTED + SOURCE_TRUSTED,
                                 translators=["t_tokens", "t_lexer", "t_prep", "t_parser"])
        d2 = ctx.cov.get("discharged", 0)
        tr2 = {f["translator"] for f in fails2 if f.get("kind") == "translator"}
        if tr2:                       # stale coq/gen input: nothing about the generated parser is established for this tree
            d2 = 0
            ctx.cov.setdefault("stale_generated_input", {})["syntax_source_translators_failed"] = sorted(tr2)
        cone2 = P.coq_cone("props/SyntaxSource.v")
        ctx.cov["syntax_source"] = {"obligations": len(SOURCE_THEOREMS), "discharged": d2, "theorems": SOURCE_THEOREMS,
                                    "coq_cone": sorted(cone2), "coq_wall_s": ctx.cov.get("coq_wall_s")}
        a2 = ctx.cov.get("axioms_per_theorem", {})
        ctx.cov["obligations"] = (c1["obligations"] or 0) + len(SOURCE_THEOREMS)
        ctx.cov["discharged"] = (c1["discharged"] or 0) + d2
        ctx.cov["theorems"] = list(c1["theorems"] or []) + SOURCE_THEOREMS
        ctx.cov["axioms_per_theorem"] = dict(c1["axioms_per_theorem"] or {}, **a2)
        ctx.cov["checker_cmd"] = "%s ; %s" % (c1["checker_cmd"], ctx.cov.get("checker_cmd"))
        ctx.cov["translators"] = dict(c1["translators"] or {}, **ctx.cov.get("translators", {}))
        ctx.cov["coq_wall_s"] = round((c1["coq_wall_s"] or 0) + (ctx.cov.get("coq_wall_s") or 0), 2)
        seen_tr = {f["translator"] for f in fails if f.get("kind") == "translator"}
        fails += [f for f in fails2
                  if not (f.get("kind") == "translator" and f["translator"] in seen_tr)
                  and not (f.get("kind") == "forbidden-declaration" and f.get("where", "").split(":")[0] not in cone2)]
    exe = vlib.build_model("prepspec")
    t_setup = time.time() - t0
    tab = P.Tables(vlib.REPO)

    # ---- inputs
    L = 6 if ctx.quick else 7
    Ls = 5 if ctx.quick else 6          # slices: joined by one blank / with a comment after a directive
    descs = P.exhaustive_chunks(L, "nl", 4)
    descs += [d for d in P.exhaustive_chunks(Ls, "sp", 4) if d[2] >= 2]
    descs += [d for d in P.exhaustive_chunks(Ls, "gap", 4) if d[2] >= 2]
    n_base = 1800 if ctx.quick else 9000
    maxdepth = 8 if ctx.quick else 14
    rnd, target_hist, progs = gen_random(ctx, n_base, maxdepth)
    rnd = [(t, "corpus-" + tag) for t, tag in CORPUS] + rnd
    rchunks = [("rnd", rnd[i:i + 120]) for i in range(0, len(rnd), 120)]
    # long chunks first
    work = rchunks + sorted(descs, key=lambda d: -(d[2] - len(d[3])))
    workers = max(1, min(8, vlib.NCPU))
    stats, ofail, cfail, sfail, samples = {}, [], [], [], []
    hashes = set()
    t1 = time.time()
    with ProcessPoolExecutor(max_workers=workers) as ex:
        for st, of, cf, sf, hs, sm in ex.map(process_chunk, [(bindir, exe, vlib.REPO, d) for d in work], chunksize=1):
            merge(stats, st)
            ofail += of
            cfail += cf
            sfail += sf
            hashes.update(hs)
            if len(samples) < 6 or (sm and sm[0]["class"] != "i" and len(samples) < 10):
                samples += sm
    t_run = time.time() - t1

    # ---- verdict
    ofail.sort(key=lambda f: (len(f["text"]), f["text"]))
    cfail.sort(key=lambda f: (len(f["text"]), f["text"]))
    sfail.sort(key=lambda f: (len(f["text"]), f["text"]))
    known = vlib.known_keys("C15")
    reported = {}
    n_viol = 0
    for f in ofail:
        rules = tuple(sorted({x["rule"] for x in f["fails"]}))
        # one report (the shortest input) per class of the oracle; failures seen only by the metamorphic form separately
        group = (f["class"], all("metamorphic" in x for x in rules))
        if reported.get(group, 0) >= 1:
            continue
        reported[group] = 1
        text = f["text"]
        if text in progs and len(text) > 80:
            small = shrink(bindir, exe, tab, progs[text], set(rules))
            r2 = P.examine(bindir, exe, tab, [P.text_of(small)], parse=True, meta=True, spec=True)[0]
            if r2["fails"]:
                r2["tag"] = (f.get("tag") or "") + " (shrunk from %d to %d bytes)" % (len(text), len(r2["text"]))
                f = dict(brief(r2), shrunk_from=text)
        key = "rule:" + "+".join(rules)
        what = "rule %s on %s: %s" % ("+".join(rules), json.dumps(f["text"])[:200], json.dumps(f["fails"][0]["observed"])[:300])
        if key in known:
            ctx.known(key, known[key])
            continue
        n_viol += 1
        ctx.violation(what, {"property": "C15", "seed": ctx.seed, "tier": ctx.tier, "text": f["text"], "rule": list(rules),
                             "class": f["class"], "failures": f["fails"], "oracle": f["oracle"],
                             "observed_real_stream": f["real"], "observed_real_macros": f["real_macros"],
                             "observed_parse_errors": f["parse_errors"], "model_stream": f["model"],
                             "model_macros": f["model_macros"], "model_vs_real": f["corr"], "tag": f.get("tag"),
                             "shrunk_from": f.get("shrunk_from"),
                             "oracle_text": "reference evaluation of the conditionals over the raw token list (lib/preplib.py ref_eval, judge)"})
    if cfail:
        fails.append({"kind": "correspondence", "file": "model-vs-implementation (prepspec_run prepm vs prepdump)",
                      "count_kept": len(cfail), "first": [{k: f[k] for k in ("text", "corr", "class")} for f in cfail[:3]]})
    if sfail:
        fails.append({"kind": "spec-vs-oracle", "file": "coq-spec-vs-reference-evaluator (prepspec_run select vs preplib.ref_eval)",
                      "count_kept": len(sfail), "first": [{k: f[k] for k in ("text", "spec", "class")} for f in sfail[:3]]})
    # extraction cross-check: a sample of the run evaluated by vm_compute inside Coq == the extracted executable
    import coqcases
    import treeio
    pool = sorted({t for t, _tag in rnd if 0 < len(t) <= 160})
    xs = [t for t, _tag in CORPUS] + ctx.rng.sample(pool, min(len(pool), 80 if ctx.quick else 300))
    xlines = [P.model_stream(l)[0] for l in P.run_model(exe, "prepm", [treeio.text_line(t) for t in xs])]
    xn, xf = coqcases.crosscheck("prep", xs, xlines, "C15")
    ctx.cov["extraction_crosscheck_cases"] = xn
    if xf:
        fails.append(xf)
    vlib.broken_ties_to_violations(ctx, fails, bool(ofail))

    # ---- evidence
    ctx.level = "proof"
    ctx.cov["evaluations"] = stats.get("texts", 0)
    ctx.cov["distinct_nontrivial"] = len(hashes)
    ctx.cov["rule"] = (
        "inputs: (a) every sequence of length 0..%d over {#define,#ifdef,#ifndef,#else,#endif,A,B,;} joined by a newline (exhaustive, no "
        "symmetry reduction), every sequence of length 2..%d joined by one blank, and of length 2..%d with a block/line comment after each "
        "#define/#ifdef/#ifndef; (b) %d seeded random programs (nesting depth up to %d; TableGen statements, directive-looking comments and "
        "strings, lexical garbage and #define in disabled branches, directives in mid-statement) with unterminated, missing-name, "
        "name-less-in-disabled and swallowed-#endif variants, and %d regression inputs (D16). Every text goes through the real lexer, the real "
        "PreProcessor, syntax::parse, the extracted Coq model and the reference evaluator; evaluations = texts examined; a text is non-trivial "
        "when it contains >= 1 conditional; distinct_nontrivial = distinct non-trivial texts (by hash)" % (L, Ls, Ls, len(rnd) - len(CORPUS), maxdepth, len(CORPUS)))
    ctx.cov["exhaustive"] = True
    ctx.cov["exhaustive_max_len"] = L
    ctx.cov["random_programs"] = len(rnd)
    ctx.cov["input_distribution"] = {"by_group": stats.get("by_group"), "by_class": stats.get("by_class"),
                                     "by_tag_and_class": dict(sorted(stats.get("by_tag_class", {}).items())),
                                     "max_nesting_depth_histogram": dict(sorted(stats.get("depth_hist", {}).items(), key=lambda kv: int(kv[0]))),
                                     "random_target_depth_histogram": dict(sorted(target_hist.items(), key=lambda kv: int(kv[0]))),
                                     **{k: v for k, v in stats.items() if not isinstance(v, dict) and k not in ("texts", "cpu_s")}}
    ctx.cov["traces_validated_against_impl"] = stats.get("texts", 0)
    ctx.cov["spec_tied_arrangements"] = stats.get("spec_tied", 0)
    ctx.cov["oracle_failures"] = stats.get("oracle_failures", 0)
    ctx.cov["correspondence_disagreements_kept"] = len(cfail)
    ctx.cov["spec_vs_oracle_disagreements_kept"] = len(sfail)
    ctx.cov["samples"] = samples[:10]
    ctx.cov["timing_s"] = {"harness": round(t_h, 1), "setup_and_proof": round(t_setup, 1), "inputs": round(t_run, 1),
                           "workers": workers, "worker_cpu": round(stats.get("cpu_s", 0), 1), "total": round(time.time() - t0, 1)}
    ctx.assumptions = [
        "a macro name is the next token after the directive that is not white space or a comment, on the same line or not (the code, the Coq "
        "specification and the reference evaluator agree; LLVM's TableGen additionally requires the same line, which the property does not state)",
        "stray #else / #endif and a second #else are outside the property (class iv): only model-vs-implementation agreement is checked there",
        "after the first enabled directive without a name nothing is demanded (class ii)",
        "macros given on the command line (-D) do not exist in the language server: the initial macro set is empty",
    ]


def replay(ctx, path):
    r = json.load(open(path))
    if "text" not in r:
        print(json.dumps(r, indent=1)[:4000])
        print("replay: this file names a broken proof obligation / tie, not an input; re-run ./check C15")
        return 1
    bindir = vlib.build_harness(False, bins=BINS)
    exe = vlib.build_model("prepspec")
    tab = P.Tables(vlib.REPO)
    text = r["text"]
    x = P.examine(bindir, exe, tab, [text], parse=True, meta=True, spec=True)[0]
    b = brief(x)
    print("text            :", json.dumps(text))
    print("recorded rule   :", r.get("rule"))
    print("ORACLE (reference evaluation): class", b["class"], " macros", b["oracle"]["macros"] if b["oracle"] else None,
          " stop", b["oracle"]["stop"] if b["oracle"] else None)
    print("   selected non-trivia tokens:", json.dumps(b["oracle"]["selected"]) if b["oracle"] else None)
    print("MODEL (prepspec_run prepm)   :", b["model"], " macros", b["model_macros"])
    print("IMPLEMENTATION (prepdump)    :", b["real"], " macros", b["real_macros"])
    print("IMPLEMENTATION (parse errors):", json.dumps(b["parse_errors"]))
    print("model vs implementation      :", "agree" if not b["corr"] else json.dumps(b["corr"]))
    print("Coq SPEC vs oracle           :", "agree" if x["spec"] is None else json.dumps(x["spec"])[:600])
    for f in x["fails"]:
        print("FAILS rule %s: expected %s; observed %s" % (f["rule"], json.dumps(f["expected"])[:300], json.dumps(f["observed"])[:600]))
    if x["fails"]:
        print("VIOLATION property=C15 replay=%s" % path)
        return 1
    print("replay: the implementation now satisfies the rules of class %s on this input" % b["class"])
    return 0
