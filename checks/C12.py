"""C12 Editor buffers are the source of truth for open documents.

Proof: TG.Props.C12 (Coq, model M-host: Vfs::read_content = open documents first, then the disk):
C12_buffers_win, by induction on the history of opens/changes: every text the database holds is the
latest editor text of an opened document or the disk text of a never-opened file; every document ever
opened keeps its latest editor text (also when it is only reached through an include, also when it
is outside the current workspace); every workspace file has its true text.

Tie (C): every session goes through the REAL lsp::vfs::Vfs over REAL files (harness `hostdrive`, vfs
mode: a directory below /verif/.cache/host/, the statements of Server::set_file_content replicated:
set_open_document, assign_or_get_file_id, set_file_content, collect_sources, set_source_root) and through the
extracted model; ids, the three inputs and the include-related query results are compared after every step.
Oracle = the property on the real code, after every step of every session:
  (1) file_content of every workspace file = editor text if the document was ever opened, else the disk text;
  (2) file_content of every document ever opened = its latest editor text (workspace or not);
  (3) diagnostics / links / outline / file set = those of the same session over an in-memory file system that
      holds disk-overlaid-by-buffers by construction (the reference session model of the property; same
      real analysis code, so a defect of another property cannot raise a C12 alarm).
  (4) the REAL Server (harness `lspdrive`, JSON-RPC over an in-memory transport, settled mode): the same sessions as
      didOpen / didChange notifications; after every notification the published diagnostics and documentSymbol of
      every workspace file = those of the reference session.  This layer exercises Server::set_file_content itself
      (layers 1-3 replicate its statements by hand and cannot see a change inside server.rs).
When the Vfs API changes so that `vfsdrive` no longer compiles, that is reported as a broken tie and layer (4) still
looks for a concrete failing input."""
import itertools
import json
import os
import shutil

import hostlib as H
import vlib

THEOREMS = ["C12_buffers_win", "C12_model_is_source"]
TRUSTED = [
    "tools/translate/t_filesystem.py (parser + operation table: renders the CURRENT file_system.rs / analysis.rs / vfs.rs into coq/gen/GenFileSystem.v) "
    "and the contracts of coq/model/FsOps.v (HashMap / Vec / VecDeque / loops / salsa inputs / env / disk / trait FileSystem); "
    "list_includes is tied by shape only (its meaning over the item abstraction is FsOps.ast_list_includes)",
    "Coq 8.16.1 kernel (vm_compute only inside the Example)",
    "the disk is static during a session (files are not modified behind the server's back) and every read of an existing file succeeds",
    "abstraction of the parse: a text is represented by its Include/Class descendants in document order (computed by the harness from the real parse tree)",
    "path algebra: theorem for every PathAlg with a decidable equality; the tie uses relative paths below one directory without '.', '..' or empty segments",
    "didOpen and didChange are the same operation Server::set_file_content (full-text sync); didClose is not handled by the server (documents stay open)",
    "salsa returns for a derived query what the query function returns on the current inputs (DESIGN section 2)",
    "extraction (ExtrOcamlBasic), host_driver.ml, harness hostdrive.rs / vfsdrive.rs (replicates the five statements of Server::set_file_content around the real Vfs), "
    "lspdrive.rs (server group: real Server over an in-memory transport; sessions it cannot settle are counted, not judged), lib/hostlib.py",
]


def T(parts):
    return H.build_text(parts)


# ---- family 1 (the property's quantifier): root a.td and included b.td, disk text != editor texts,
#      2 paths x 2 editor texts, opens and changes in every order
A_DISK = T([("inc", "b.td"), ("raw", "class A : Bdisk;")])
A_ED = [T([("inc", "b.td"), ("raw", "class A : Bed0;")]), T([("raw", "class A2;"), ("inc", "b.td"), ("raw", "def a : Bed1;")])]
B_DISK = T([("raw", "class Bdisk;")])
B_ED = [T([("raw", "class Bed0;")]), T([("raw", "class Bed1;"), ("inc", "c.td")])]
C_DISK = T([("raw", "class Cdisk;")])
OPS1 = [("a.td", A_ED[0]), ("a.td", A_ED[1]), ("b.td", B_ED[0]), ("b.td", B_ED[1])]
DISK1 = [["a.td", A_DISK], ["b.td", B_DISK], ["c.td", C_DISK]]

# ---- family 2: three levels (a -> b -> c), c reached only through an include of an include, found
#      through INCLUDE_DIR; d.td never opened
OPS2 = [("a.td", T([("inc_if", "b.td"), ("raw", "def a : Ced;")])),
        ("b.td", T([("inc_let", "c.td"), ("inc", "d.td"), ("raw", "class Bed;")])),
        ("inc/c.td", T([("raw", "class Ced;")])),
        ("inc/c.td", T([("raw", "class Ced2;"), ("inc", "missing.td")]))]
DISK2 = [["a.td", T([("inc", "b.td")])], ["b.td", T([("inc", "c.td"), ("raw", "class Bdisk;")])],
         ["inc/c.td", T([("raw", "class Cdisk;")])], ["d.td", T([("raw", "class Ddisk;")])]]


# ---- family 3: the included document exists ONLY as an editor buffer (new, never saved): n.td is absent on disk
OPS3 = [("a.td", T([("inc", "n.td"), ("raw", "class A : N0;")])),
        ("a.td", T([("raw", "class A3;"), ("inc_if", "n.td"), ("raw", "def a : N1;")])),
        ("n.td", T([("raw", "class N0;")])),
        ("n.td", T([("raw", "class N1;"), ("inc", "c.td")]))]
DISK3 = [["a.td", T([("inc", "n.td"), ("raw", "class A : Ndisk;")])], ["c.td", C_DISK]]

# ---- family 4: include spellings that are component-equal to the document's path (`./`, `//`, `sub/./`): PathBuf's
#      Eq / Hash ignore them, so the editor buffer of w/b.td must be found through `include "./b.td"`.  These
#      spellings are outside the Coq path algebra (segment lists): oracle layers only ("no_model").
OPS4 = [("w/a.td", T([("inc", "./b.td"), ("inc", "sub//c.td"), ("raw", "class A : Bed0;")])),
        ("w/a.td", T([("inc", "sub/./c.td"), ("inc_let", ".//b.td"), ("raw", "def a : Ced0;")])),
        ("w/b.td", T([("raw", "class Bed0;")])),
        ("w/sub/c.td", T([("raw", "class Ced0;"), ("inc", ".././b.td")]))]
OPS4[3] = ("w/sub/c.td", T([("raw", "class Ced0;")]))          # ('..' is not generated)
DISK4 = [["w/a.td", T([("inc", "./b.td"), ("raw", "class A : Bdisk;")])], ["w/b.td", B_DISK], ["w/sub/c.td", C_DISK]]


def family(ops, disk, L, inc, tag):
    for n in range(1, L + 1):
        for seq in itertools.product(range(len(ops)), repeat=n):
            yield {"files": disk, "include_dir": inc,
                   "history": [["touch", ops[i][0], ops[i][1]] for i in seq],
                   "gen": "%s, ops %s" % (tag, list(seq))}


def rand_text(rng, i, n, gen):
    parts = [("decl", "C%d_%s" % (i, gen))]
    for _ in range(rng.choice([0, 1, 1, 2])):
        tgt = "f%d.td" % rng.randrange(n) if rng.random() < 0.85 else "m0.td"
        parts.append((rng.choice(["inc", "inc", "inc_if", "inc_let", "inc_deep"]), tgt))
    if rng.random() < 0.6:
        parts.append(("raw", "def d%d : C%d_%s;" % (i, rng.randrange(n), rng.choice(["disk", "ed0", "ed1"]))))
    rng.shuffle(parts)
    return T(parts)


def random_session(rng, quick):
    n = rng.randint(2, 4)
    disk = [["f%d.td" % i, rand_text(rng, i, n, "disk")] for i in range(n)]
    ed = {i: [rand_text(rng, i, n, "ed0"), rand_text(rng, i, n, "ed1")] for i in range(n)}
    L = rng.randint(2, 5 if quick else 9)
    hist = []
    for _ in range(L):
        i = rng.randrange(n)
        hist.append(["touch", "f%d.td" % i, rng.choice(ed[i])])
    return {"files": disk, "include_dir": None, "history": hist, "gen": "random n=%d L=%d" % (n, L)}


def gen_cases(ctx):
    L = 4 if ctx.quick else 6
    cases = list(family(OPS1, DISK1, L, None, "root+included"))
    cases += list(family(OPS2, DISK2, 3 if ctx.quick else 5, "inc", "three levels + INCLUDE_DIR"))
    cases += list(family(OPS3, DISK3, 3 if ctx.quick else 4, None, "included document only in the editor (absent on disk)"))
    for c in family(OPS4, DISK4, 3 if ctx.quick else 4, None, "component-equal include spellings (./ // sub/./)"):
        c["no_model"] = True
        cases.append(c)
    nfam = len(cases)
    nrand = 150 if ctx.quick else 1500
    for _ in range(nrand):
        cases.append(random_session(ctx.rng, ctx.quick))
    return cases, nfam, nrand, L


def pub(c):
    return {k: c[k] for k in ("mode", "files", "include_dir", "history", "no_model") if k in c}


def scratch():
    d = os.path.join(vlib.CACHE, "host", "run-%d" % os.getpid())
    os.makedirs(d, exist_ok=True)
    return d


def check(ctx, bindir, exe, cases, vfs_ok=True, lsp_bindir=None):
    base = scratch()
    mcases = [dict(c, mode="memfs") for c in cases]
    try:
        if vfs_ok:
            vcases = [dict(c, mode="vfs", dir=os.path.join(base, "c%d" % i)) for i, c in enumerate(cases)]
            res = H.evaluate(bindir, exe, vcases, timeout_ms=4000)
        else:
            res = [{"impl": {"skipped": True}, "bad": [], "tie": None, "obs": [], "model": None} for _ in cases]
        mem = H.run_harness(bindir, mcases, 4000)
    finally:
        shutil.rmtree(base, ignore_errors=True)
    viol, ties = {}, []
    stats = {"steps": 0, "nontrivial": set(), "open_included": 0, "open_outside": 0, "never_opened_in_ws": 0}

    def note(kind, c, step, detail):
        cur = viol.get(kind)
        if cur is None or (H.case_size(c), step) < (H.case_size(cur[0]), cur[1]):
            viol[kind] = (c, step, detail)

    for c, r, m in zip(cases, res, mem):
        if r["impl"].get("skipped"):
            continue
        if r["tie"] is not None:
            ties.append((c, r["tie"]))
        if "steps" not in r["impl"]:
            if "steps" in m:
                note("session-fails-over-the-real-vfs", c, len(c["history"]) - 1, {"vfs": r["impl"]})
            continue
        disk = {p: t for p, t in c["files"]}
        last = {}
        for k, s in enumerate(r["impl"]["steps"]):
            kind, p, t = c["history"][k]
            last[p] = t
            stats["steps"] += 1
            fcs = {q: x for q, x in s["fc"]}
            files = s.get("files") or []
            # (1) workspace files hold the truth
            for q in files:
                truth = last.get(q, disk.get(q))
                if fcs.get(q) != truth:
                    note("workspace-file-does-not-hold-the-%s-text" % ("editor" if q in last else "disk"), c, k,
                         {"file": q, "opened": q in last, "database": fcs.get(q), "expected": truth, "disk": disk.get(q)})
            # (2) every opened document keeps its latest editor text
            for q, txt in last.items():
                if fcs.get(q) != txt:
                    note("open-document-text-replaced", c, k,
                         {"file": q, "database": fcs.get(q), "latest_editor_text": txt, "disk": disk.get(q), "in_workspace": q in files})
            # (3) responses = reference session (same analysis over disk-overlaid-by-buffers)
            if "steps" in m and k < len(m["steps"]):
                a, b = H.proj_inputs(s), H.proj_inputs(m["steps"][k])
                d = H.first_diff(a, b)
                if d is not None:
                    key_, x, y = d
                    if isinstance(x, dict) and isinstance(y, dict):
                        sub = H.first_diff(x, y)
                        if sub is not None:
                            x, y = {sub[0]: sub[1]}, {sub[0]: sub[2]}
                    note("responses-differ-from-reference-session:" + key_, c, k,
                         {"key": key_, "over_real_vfs": x, "reference_session": y})
            root = s.get("root")
            inc_open = [q for q in files if q in last and q != root and disk.get(q) != last[q]]
            if inc_open:
                stats["open_included"] += 1
                stats["nontrivial"].add(vlib.sha(json.dumps([c["files"], c["include_dir"], c["history"][:k + 1]])))
            if any(q not in files for q in last):
                stats["open_outside"] += 1
            if any(q not in last for q in files):
                stats["never_opened_in_ws"] += 1
    # ---- the real Server (JSON-RPC level): Server::set_file_content itself, not a replica of its statements
    stats["server_sessions"] = stats["server_steps"] = stats["server_unusable"] = 0
    if lsp_bindir is not None:
        from concurrent.futures import ThreadPoolExecutor
        # ($INCLUDE_DIR cannot be pointed into lspdrive's per-run directory: those sessions stay with layers 1-3)
        todo = [(c, m) for c, m in zip(cases, mem) if "steps" in m and c.get("include_dir") is None]
        scripts = [H.lsp_script(c, [st.get("files") or [] for st in m["steps"]]) for c, m in todo]
        with ThreadPoolExecutor(max_workers=max(2, min(8, vlib.NCPU - 2))) as ex:
            outs = list(ex.map(lambda sm: H.run_lsp(lsp_bindir, sm[0]), scripts))
        for (c, m), (script, marks), out in zip(todo, scripts, outs):
            obs = H.lsp_observe(out, script, marks)
            if obs is None:
                stats["server_unusable"] += 1
                continue
            stats["server_sessions"] += 1
            for k, (diags, syms) in enumerate(obs):
                if k >= len(m["steps"]):
                    break
                ref = m["steps"][k]
                fsys = H.overlay_after(c, k + 1)
                stats["server_steps"] += 1
                for q in ref.get("files") or []:
                    want = sorted(H.offsets_to_lsp(fsys[q], a, b) + [msg] for a, b, msg in ref["diagnostics"].get(q, []))
                    if diags.get(q) != want:
                        note("server:published-diagnostics-differ-from-reference-session", c, k,
                             {"file": q, "published": diags.get(q), "reference_session": want, "session": script["steps"]})
                    ol = ref["outline"].get(q)
                    wnames = None if ol is None else [n for n, _ in ol]
                    if syms.get(q) != wnames:
                        note("server:documentSymbol-differs-from-reference-session", c, k,
                             {"file": q, "documentSymbol": syms.get(q), "reference_session": wnames, "session": script["steps"]})
    return res, viol, ties, stats


def builds(fails):
    """hostdrive must build; vfsdrive / lspdrive may stop compiling when the Vfs / Server API changes: that is a
    broken tie, and the remaining layers go on looking for a failing input"""
    bindir = vlib.build_harness(False, bins=["hostdrive"])
    vfs_ok, lsp_bindir = True, None
    try:
        vlib.build_harness(False, bins=["vfsdrive"])
    except vlib.BuildError as ex:
        vfs_ok = False
        fails.append({"kind": "harness-build", "file": "vfsdrive (statements of Server::set_file_content around the real Vfs) does not compile: the Vfs API changed",
                      "error": str(ex)[-1500:]})
    try:
        lsp_bindir = vlib.build_harness(True, bins=["lspdrive"])
    except vlib.BuildError as ex:
        fails.append({"kind": "harness-build", "file": "lspdrive (real Server) does not compile", "error": str(ex)[-1500:]})
    return bindir, vfs_ok, lsp_bindir


def run(ctx):
    fails = vlib.proof_step(ctx, "TG.Props.C12", THEOREMS, ["props/C12.vo"], TRUSTED, translators=["t_filesystem"])
    bindir, vfs_ok, lsp_bindir = builds(fails)
    exe = vlib.build_model("host")
    H.calibrate(bindir)
    cases, nfam, nrand, L = gen_cases(ctx)
    res, viol, ties, stats = check(ctx, bindir, exe, cases, vfs_ok, lsp_bindir)
    # extraction cross-check: a slice of the batch evaluated by vm_compute inside Coq vs the extracted program
    if H.LAST_BATCH:
        nx, xbad = H.crosscheck_last_batch(40 if ctx.quick else 150)
        ctx.cov["extraction_crosschecked_in_coq"] = nx
        if xbad:
            fails.append({"kind": "extraction-crosscheck", "file": "extracted host_run differs from vm_compute of TG.Model.HostInst.run_digests",
                          "detail": xbad[:3]})
    found = False
    for kind, (c, step, detail) in sorted(viol.items()):
        found = True
        ctx.violation("C12 %s" % kind,
                      {"property": "C12", "kind": kind, "step": step, "detail": detail, "case": dict(pub(c), mode="vfs"),
                       "reached": H.reached_of(c), "gen": c.get("gen"), "seed": ctx.seed})
    if ties and not found:
        c, (step, key, io, mo) = min(ties, key=lambda x: H.case_size(x[0]))
        fails.append({"kind": "correspondence", "file": "model M-host vs implementation (real Vfs) differ on '%s'" % key})
        ctx.violation("C12 correspondence broken: model and implementation differ on '%s' (no property violation found by the oracle)" % key,
                      {"property": "C12", "broken": "correspondence M-host (Includes.v/Host.v) vs lsp/src/vfs.rs + file_system.rs",
                       "key": key, "step": step, "implementation": io, "model": mo, "case": dict(pub(c), mode="vfs"),
                       "reached": H.reached_of(c), "seed": ctx.seed, "disagreeing_cases": len(ties)},
                      no_failing_input=True)
        found = True
    ctx.cov.update({
        "evaluations": stats["steps"],
        "sessions": sum(1 for r in res if not r["impl"].get("skipped")),
        "distinct_nontrivial": len(stats["nontrivial"]),
        "rule": "every session of 1..%d opens/changes over root a.td + included b.td x 2 editor texts each (disk texts differ; b.td may pull in c.td), "
                "every session of 1..%d operations over a -> b -> inc/c.td (three levels, INCLUDE_DIR, a never-opened d.td), over an included document that exists "
                "only as an editor buffer, and over component-equal include spellings (./b.td, sub//c.td, sub/./c.td; oracle layers only) = %d sessions, "
                "plus %d random sessions (2..%d operations over 2..4 files, 2 editor texts + 1 disk text per file); every step is checked; "
                "non-trivial = distinct session prefix after which an OPEN document whose editor text differs from the disk is in the workspace only through an include"
                % (L, 3 if ctx.quick else 5, nfam, nrand, 5 if ctx.quick else 9),
        "steps_with": {"open document reached through an include, disk differs": stats["open_included"],
                       "open document outside the workspace": stats["open_outside"],
                       "never-opened file in the workspace": stats["never_opened_in_ws"]},
        "real_server_sessions": stats["server_sessions"], "real_server_steps_compared": stats["server_steps"],
        "real_server_sessions_unusable": stats["server_unusable"],
        "exhaustive": False,
        "samples": [dict(pub(c), gen=c.get("gen")) for c in (cases[0], cases[nfam // 2], cases[-1])],
        "traces_validated_against_impl": sum(1 for r in res if "steps" in r["impl"] and r["tie"] is None),
        "correspondence_disagreements": len(ties),
        "compared": "real Vfs over real files vs (1) truth = latest editor text / disk text, (2) latest editor text of every opened document, "
                    "(3) the same session over an in-memory disk-overlaid-by-buffers file system (file set, inputs, diagnostics, links, outline); "
                    "model vs implementation: ids, inputs, links, not-found, outline",
    })
    ctx.assumptions += ["static disk during a session", "full-text document sync; didClose is not handled by the server"]
    vlib.broken_ties_to_violations(ctx, fails, found)


def replay(ctx, path):
    obj = json.load(open(path))
    case = obj["case"]
    for t, fl in (obj.get("reached") or {}).items():
        H.REACHED.setdefault(t, fl)
    bindir, vfs_ok, lsp_bindir = builds([])
    exe = vlib.build_model("host")
    res, viol, ties, stats = check(ctx, bindir, exe, [case], vfs_ok, lsp_bindir)
    print("implementation (real Vfs):", json.dumps(res[0]["impl"])[:3000])
    print("model:", json.dumps(res[0]["model"])[:2000])
    for kind, (c, step, detail) in sorted(viol.items()):
        print("oracle:", kind, "step", step, json.dumps(detail, default=str)[:2000])
    print("tie:", json.dumps(ties, default=str)[:1500])
    bad = bool(viol) or bool(ties)
    print("REPRODUCED" if bad else "not reproduced")
    return 1 if bad else 0
