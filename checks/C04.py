"""C04 Grammar conformance: documented TableGen syntax is accepted (zero errors, constituents reachable through the
typed accessors), other input is flagged, real-world files parse.

Proof: TG.Props.C04 over tables regenerated from the current source: the documented grammar (t_docgrammar: syntax.md + rule
comments), the grammar program (t_grammar), the accessor table (t_ast), token kinds / lexer tables.
Oracle (implementation side): an independent Earley recogniser over token kinds for the documented grammar decides every
generated token sequence; the real parser must report zero errors on sentences and at least one error on non-sentences
(the trailing-separator allowance applied); the real typed accessors (harness `astwalk`: one explicit call per accessor of
ast.rs) must return every child node of every node of a sentence's tree, in source order; the LLVM corpus parses clean.
Known deltas between the documents and the parser are grammar edits with keys (lib/c04deltas.py); a discrepancy explained by
one of them is a KNOWN-FINDING when known_findings.txt lists the key, anything else is a VIOLATION with the input."""
import glob
import json
import os
import sys

import vlib
import complib as L
import grammarlib as G
import docgrammar as D
import c04deltas as CD

sys.path.insert(0, os.path.join(vlib.VERIF, "tools", "translate"))

THEOREMS = ["C04_doc_literals_lex", "C04_errors_or_sentence", "C04_check_all_sound", "C04_check_discriminates", "C04_complete_partial",
            "C04_accessors_reach", "C04_accessors_cover_refuted", "C04_complete_for", "C04_complete_type", "C04_complete_rangelist", "C04_complete_rangesuffix", "C04_complete_checker_sound", "C04_complete_all", "C04_complete_restricted_if", "C04_complete_restricted_if_sub", "C04_complete_parse", "C04_token_level_refines", "C04_token_level_frame"]
TRANSLATORS = ["t_tokens", "t_lextables", "t_grammar", "t_ast", "t_docgrammar"]
TRUSTED = [
    "Coq 8.16.1 kernel incl. vm_compute for the reflective obligations over the generated grammar program / documented grammar / accessor table",
    "translators t_docgrammar (EBNF reader, reconciliation rules listed in GenDocGrammar.v), t_grammar, t_ast, t_tokens, t_lextables",
    "reading of the documents: rule comments are unioned with syntax.md; `ClassID` = ClassId; a comment mentioning an undefined nonterminal is ignored; "
    "a rule that is one parenthesised group has literal parentheses; trailing separator allowed where a separated list stands directly before a closing bracket",
    "known deltas lib/c04deltas.py (each a grammar edit with a key in known_findings.txt)",
    "harness parsedump.rs / astwalk.rs, lib/docgrammar.py (Earley recogniser: the judge of sentence-hood), extraction + syntax_driver.ml for the model correspondence",
]

TRIVIA = ("Whitespace", "LineComment", "BlockComment", "PreProcessor")
IDS = ["a", "b", "X", "Foo", "v1"]
ALPHABET = [("Id", "zz"), ("IntVal", "3"), ("BinaryIntVal", "0b1"), ("Comma", ","), ("Semi", ";"), ("LBrace", "{"), ("RBrace", "}"),
            ("Less", "<"), ("Greater", ">"), ("Colon", ":"), ("Equal", "="), ("LParen", "("), ("RParen", ")"), ("LSquare", "["),
            ("RSquare", "]"), ("Class", "class"), ("Def", "def"), ("In", "in"), ("StrVal", '"q"'), ("Paste", "#"), ("Dot", "."),
            ("DotDotDot", "..."), ("Minus", "-"), ("Int", "int"), ("Let", "let"), ("XAdd", "!add"), ("VarName", "$v"),
            ("Code", "code"), ("Question", "?"), ("TrueVal", "true"), ("Then", "then"), ("ElseKw", "else"), ("Field", "field"),
            ("Defvar", "defvar"), ("XCond", "!cond"), ("Bits", "bits"), ("List", "list"), ("CodeFragment", "[{x}]"),
            ("Defset", "defset"), ("Foreach", "foreach"), ("If", "if"), ("MultiClass", "multiclass"), ("Assert", "assert"),
            ("Include", "include"), ("Defm", "defm"), ("Dump", "dump"), ("String", "string"), ("Bit", "bit"), ("Dag", "dag")]

# inputs that must always be part of the run: the shapes of D19 (fixed by 4b93cf8), the snapshot inputs of grammar.rs
FIXED = ['class A : ;', 'defvar = 1;', 'defset int = { }', 'defvar v = x[1...];', 'defvar v = x{1-};', 'class A { int x = y[1 ...]; }',
         'class Foo<int A, int B = 1>: Bar<A, 2>;', 'def Foo : Bar;', 'def foo {}', 'let A = 1, B<1...3> = 0b101 in { class Foo; }',
         'class A { let x{1} = 2; }', 'multiclass M { def A; }', 'defm A : B;', 'foreach i = [1, 2] in def X;', 'foreach i = {1-3} in def X;',
         'foreach i = 1...3 in def X;', 'if 1 then { def A; } else { def B; }', 'class C<int a> { bits<4> b = { a, 1, 0, 1 }; }',
         'defvar v = !cond(1: 2, 3: 4);', 'defvar v = !cast<A>("x");', 'defvar d = (op a:$x, b:$y);', 'defvar l = [1, 2,];',
         'class A : B<1,>;', 'defset list<A> S = { def X; }', 'assert 1, "m";', 'dump "m";', 'include "f.td"',
         'def A#B { int x = 1; }', 'def A#B#C : D { }', 'defm A#B : C;', 'def A#B;', 'def a[0].f#b { }', 'multiclass M { }',
         'multiclass M<int a> : B { defm X : C<a>; }', 'class A { field int x = 1; code c = [{ x }]; dump "m"; }',
         'defvar v = a.b.c[0, 1]{3-1}; ', 'defvar v = !foreach(x, [1], x);', 'let A<1> = 2, B = 3 in def X;',
         'class A<bits<2> b = {1, 0}, list<int> l = [1]> ;', 'if !eq(1, 2) then def A; else if 1 then def B;',
         'def : Outer<Inner<x = 1>>;', 'def d : A<B<x = 1>, 2>;', 'def d : A<B<1, y = 2>, C<z = 3>, w = D<4>>;', 'def d : Foo<!xor(a, b)>;',
         'if 1 then if 2 then def A; else def B;', 'if 1 then def A; else def B;', 'if 1 then foreach i = [1] in if 2 then def A; else def B;',
         'if 1 then let x = 1 in { def A; } else def B;', 'if 1 then { def A; } else if 2 then def B; else def C;',
         'if 1 then if 2 then def A; else def B; else def C;', 'if 1 then let x = 1 in def A; else def B;',
         'if 1 then foreach i = [1] in def A; else def B;',
         'defvar v = Foo<!add(a, b)>.f;', 'def d : A<[B<x = 1>], (op C<y = 2>:$n)>;', 'class A : B<!cond(1: C<x = 2>)>;']


class Grammars:
    def __init__(self, repo):
        import t_docgrammar
        import t_lextables
        d = t_docgrammar.load(repo)
        self.d = d
        self.T = d["T"]
        lt = t_lextables.parse(repo)
        self.bang_sp = {v: k for k, v in lt["bang"]}
        tk = d["term_kinds"]
        mk = lambda rules: D.CFG(rules, "SourceFile", lambda s: self.T[s], tk)
        self.doc, self.trail, self.sound, self.must = mk(d["rules"]), mk(d["trail"]), mk(d["sound"]), mk(d["must"])
        self.acc = {x["key"]: mk(D.apply_edits(d["trail"], x["edits"])) for x in CD.ACCEPT}
        self.rej = {x["key"]: mk(D.apply_edits(d["rules"], x["edits"])) for x in CD.REJECT}
        self.bang = list(d["tok"]["bang"])
        self._mk = mk
        self._subset = {}
        self.comp = mk(self.restricted_if(d["must"]))

    @staticmethod
    def restricted_if(must):
        """the grammar of the whole-file completeness theorem (coq/proofs/C04Complete.v, comp_grammar): `must` with the rule of If
        restricted so that an `else` follows a then-branch only if that branch is a block or a closed statement.  Mirrors
        if_restrict / closed_rule / block_body there; a different shape of the documented rules raises (then the Coq side fails too)."""
        r = dict(must)
        i = must["If"]
        if not (i[0] == "seq" and len(i[1]) == 5 and i[1][3][0] == "alt" and len(i[1][3][1]) == 2 and i[1][4][0] == "opt"):
            raise D.GrammarError("unexpected shape of the documented rule of If")
        kw, val, then, (_, (blk, st)), els = i[1]
        r["If"] = ("seq", [kw, val, then, ("alt", [("seq", [blk, els]), ("seq", [("nt", "ClosedStatement"), els]), st])])
        def block_body(x):
            if not (x[0] == "seq" and len(x[1]) == 4 and x[1][3][0] == "alt"):
                raise D.GrammarError("unexpected shape of a documented rule with a block body")
            return ("seq", list(x[1][:3]) + [x[1][3][1][0]])
        r["LetBlock"] = block_body(must["Let"])
        r["ForeachBlock"] = block_body(must["Foreach"])
        r["ClosedStatement"] = ("alt", [("nt", n) for n in ("Def", "Class", "Defm", "Defvar", "Dump", "Assert", "Include", "Defset",
                                                              "MultiClass", "LetBlock", "ForeachBlock")])
        return r

    def subset_grammar(self, which, keys):
        """grammar with only the listed deltas applied (cached)"""
        kk = (which, tuple(sorted(keys)))
        if kk not in self._subset:
            base = self.d["trail"] if which == "acc" else self.d["rules"]
            table = CD.ACCEPT if which == "acc" else CD.REJECT
            edits = [e for x in table if x["key"] in keys for e in x["edits"]]
            self._subset[kk] = self._mk(D.apply_edits(base, edits))
        return self._subset[kk]

    def explain(self, which, kinds):
        """smallest set of known deltas that explains the discrepancy (accept: makes it a sentence; reject: excludes it)"""
        import itertools
        table = [x["key"] for x in (CD.ACCEPT if which == "acc" else CD.REJECT)]
        for size in (1, 2, 3):
            for ks in itertools.combinations(table, size):
                rec = self.subset_grammar(which, ks).recognise(kinds)
                if rec == (which == "acc"):
                    return list(ks)
        return table

    def lex_lit(self, s):
        return (self.T[s], s)

    def lex_term(self, t, rng):
        if t == "INT":
            return rng.choice([("IntVal", "1"), ("IntVal", "7"), ("IntVal", "42"), ("BinaryIntVal", "0b10")])
        if t == "ID":
            return ("Id", rng.choice(IDS))
        if t == "STRING":
            return ("StrVal", '"s"')
        if t == "CODE":
            return ("CodeFragment", "[{ c }]")
        if t == "VARNAME":
            return ("VarName", "$x")
        if t == "BANGOP":
            k = rng.choice(self.bang)
            return (k, "!" + self.bang_sp[k])
        if t == "CONDOP":
            return ("XCond", "!cond")
        if t == "@IntVal":
            return ("IntVal", "3")
        if t == "@BinaryIntVal":
            return ("BinaryIntVal", "0b1")
        if t.startswith("@X") and t[1:] in self.bang_sp:
            return (t[1:], "!" + self.bang_sp[t[1:]])
        raise D.GrammarError("no lexeme for terminal %s" % t)


def gen_sentences(gr, rules, rng, n, budgets=(5, 10, 20, 30, 40), maxlen=70):
    gen = D.SentenceGen(rules, rng, gr.lex_lit, gr.lex_term)
    out = []
    for nt, r in rules.items():
        alts = r[1] if r[0] == "alt" else [r]
        for i in range(len(alts)):
            for b in (8, 20):
                s = gen.gen("SourceFile", b, force=(nt, i))
                if len(s) <= 60:
                    out.append(s)
    for _ in range(n):
        s = gen.gen("SourceFile", rng.choice(list(budgets)))
        if len(s) <= maxlen:
            out.append(s)
    return out, gen.used


def variants(s, rng, n):
    out = []
    for _ in range(n):
        v = list(s)
        for _ in range(rng.choice([1, 1, 2])):
            op = rng.choice("dixt")
            if op == "d" and v:
                del v[rng.randrange(len(v))]
            elif op == "i":
                v.insert(rng.randint(0, len(v)), rng.choice(ALPHABET))
            elif op == "x" and v:
                i = rng.randrange(len(v))
                v.insert(i, v[i])
            elif op == "t" and len(v) > 1:
                i = rng.randrange(len(v) - 1)
                v[i], v[i + 1] = v[i + 1], v[i]
        out.append(v)
    return out


def systematic(s):
    """all single-token deletions, duplications and adjacent transpositions"""
    out = []
    for i in range(len(s)):
        out.append(s[:i] + s[i + 1:])
        out.append(s[:i] + [s[i]] + s[i:])
        if i + 1 < len(s):
            out.append(s[:i] + [s[i + 1], s[i]] + s[i + 2:])
    return out


def class_substitutions(gr, sents, rng):
    """a terminal class with several token kinds (BANGOP, INT): for every distinct left context in which a member occurs,
    the same sentence with EVERY other member of the class at that position (still a sentence)"""
    classes = {}
    for k in gr.bang:
        classes[k] = [(b, "!" + gr.bang_sp[b]) for b in gr.bang if b in gr.bang_sp]
    ints = [("IntVal", "5"), ("BinaryIntVal", "0b11")]
    classes["IntVal"] = ints
    classes["BinaryIntVal"] = ints
    seen, out = set(), []
    for s in sents:
        for i, (k, _) in enumerate(s):
            if k in classes:
                ctx_ = (s[i - 1][0] if i else None, "bang" if k in gr.bang else "int")
                if ctx_ in seen:
                    continue
                seen.add(ctx_)
                for alt in classes[k]:
                    if alt[0] != k:
                        out.append(s[:i] + [alt] + s[i + 1:])
    return out


def theorem_instances(rng, n):
    """sentences whose interesting part is a word of a nonterminal covered by the infinite-language completeness theorems
    (Type: nesting depth up to 12; RangeList: up to 60 pieces), embedded in places where the followers are admissible"""
    def integer():
        return rng.choice(["0", "7", "42", "0b101", "0x1F", "123456"])
    def typ(d):
        if d <= 0 or rng.random() < 0.15:
            return rng.choice(["bit", "int", "string", "dag", "bits<%s>" % rng.choice(["1", "8", "64"]), "Foo"])
        return "list<%s>" % typ(d - 1)
    def piece():
        a, b = integer(), rng.choice(["1", "9", "31", "0b11"])
        d = rng.choice(["1", "9", "31"])        # after `-` only decimal: `-0b11` lexes as IntVal(-0) Id(b11)
        return rng.choice([a, "%s-%s" % (a, d), "%s - %s" % (a, b), "%s...%s" % (a, b), "%s -%d" % (a, rng.randint(0, 9))])
    def rlist(k):
        return rng.choice([", ", ","]).join(piece() for _ in range(k))
    out = []
    for i in range(n):
        c = i % 6
        if c == 0:
            out.append("class C { %s f; }" % typ(rng.randint(1, 12)))
        elif c == 1:
            out.append("class C<%s a> { %s b = ?; }" % (typ(rng.randint(1, 8)), typ(rng.randint(1, 8))))
        elif c == 2:
            out.append("defset %s S = { def X; }" % typ(rng.randint(1, 10)))
        elif c == 3:
            out.append("class A { let x{%s} = 0; }" % rlist(rng.randint(1, 60)))
        elif c == 4:
            out.append("defvar v = a{%s};" % rlist(rng.randint(1, 60)))
        else:
            out.append("foreach i = {%s} in def X;" % rlist(rng.randint(1, 30)))
    return out


def text_of(s):
    return " ".join(x for _, x in s)


def parse_flat(bindir, texts):
    return L.run_json(os.path.join(bindir, "parsedump"), texts, ["--flat"], timeout=1800)


def kinds_of_result(r):
    return [l[0] for l in r["leaves"] if l[0] not in TRIVIA and l[0] != "Eof"]


def tk_to_sk(tok):
    return dict(tok["tk2sk"])


def classify(gr, kinds, has_err):
    """returns (verdict, keys): verdict in ok | rejected | accepted | known-rejected | known-accepted"""
    if gr.must.recognise(kinds):
        return ("rejected", []) if has_err else ("ok", [])
    if gr.doc.recognise(kinds):
        if not has_err:
            return ("ok", [])
        return ("known-rejected", gr.explain("rej", kinds))
    if gr.trail.recognise(kinds):
        return ("ok", [])             # only derivable with a trailing separator: nothing is demanded
    if has_err:
        return ("ok", [])
    if gr.sound.recognise(kinds):
        return ("known-accepted", gr.explain("acc", kinds))
    return ("accepted", [])


def lex_tokens(bindir, text):
    """(kind, lexeme) list of a text through the real lexer (parsedump leaves)"""
    r = parse_flat(bindir, [text])[0]
    b = text.encode()
    return [(l[0], b[l[1]:l[2]].decode()) for l in r["leaves"] if l[0] not in TRIVIA and l[0] != "Eof"]


def shrink(bindir, gr, toks, want):
    """greedy one-token-deletion shrinking keeping the verdict `want`"""
    cur = list(toks)
    for _ in range(40):
        cands = [cur[:i] + cur[i + 1:] for i in range(len(cur))]
        cands = [c for c in cands if c]
        if not cands:
            break
        rs = parse_flat(bindir, [text_of(c) for c in cands])
        nxt = None
        for c, r in zip(cands, rs):
            if "leaves" in r and kinds_of_result(r) == [sk for sk in [gr.sk[k] for k, _ in c]] and \
                    classify(gr, [k for k, _ in c], bool(r["errors"]))[0] == want:
                nxt = c
                break
        if nxt is None:
            break
        cur = nxt
    return cur


def children_nodes(tree):
    out = []

    def go(n):
        if n[0] == "N":
            out.append((n[1], n[2], n[3], [(c[1], c[2], c[3]) for c in n[4] if c[0] == "N"]))
            for c in n[4]:
                go(c)
    go(tree)
    return out


def accessor_findings(tree, walk):
    """tree: parsedump tree; walk: astwalk nodes (same preorder).  Returns list of (parent kind, child kind, what)"""
    nodes = children_nodes(tree)
    res = []
    if len(nodes) != len(walk):
        return [("?", "?", "astwalk and parsedump disagree on the number of nodes")]
    for (k, lo, hi, kids), w in zip(nodes, walk):
        if w[0] != k or w[1] != lo or w[2] != hi:
            return [("?", "?", "astwalk and parsedump disagree on node %s" % k)]
        got = set()
        for fname, items in w[3]:
            pos = [tuple(i) for i in items]
            got |= set(pos)
            idx = [kids.index(p) if p in kids else -1 for p in pos]
            if any(i < 0 for i in idx):
                res.append((k, fname, "accessor %s.%s returns a node that is not a child" % (k, fname)))
            elif idx != sorted(idx):
                res.append((k, fname, "accessor %s.%s returns children out of source order" % (k, fname)))
        for c in kids:
            if c[0] != "Error" and c not in got:
                res.append((k, c[0], "child %s [%d,%d) of %s [%d,%d) is returned by no typed accessor" % (c[0], c[1], c[2], k, lo, hi)))
    return res


def corpus_files():
    fs = sorted(glob.glob(os.path.join(vlib.VERIF, "corpus", "llvm14", "**", "*.td"), recursive=True))
    if not fs:
        fs = sorted(glob.glob("/usr/include/llvm-14/llvm/**/*.td", recursive=True))
    return fs


def run(ctx):
    bindir = vlib.build_harness(False, bins=["parsedump", "astwalk"])
    fails = vlib.proof_step(ctx, "TG.Props.C04", THEOREMS, ["props/C04.vo"], TRUSTED, translators=TRANSLATORS)
    fails = G.own_failures(fails, ["props/C04.vo"])
    known = vlib.known_keys("C04")
    found = False
    try:
        gr = Grammars(vlib.REPO)
    except Exception as ex:     # the documents can no longer be read: broken tie (already in fails when the translator failed too)
        if not any(f.get("translator") == "t_docgrammar" for f in fails):
            fails.append({"kind": "translator", "translator": "t_docgrammar", "error": str(ex)[:800]})
        vlib.broken_ties_to_violations(ctx, fails, False)
        return
    gr.sk = tk_to_sk(gr.d["tok"])
    rng = ctx.rng
    n = 500 if ctx.quick else 3000
    d = gr.d
    bud = (5, 10, 20, 30, 40) if ctx.quick else (5, 10, 20, 30, 40, 60, 90)
    s_must, used_must = gen_sentences(gr, d["must"], rng, n, bud, 70 if ctx.quick else 160)
    s_doc, used_doc = gen_sentences(gr, d["rules"], rng, n // 3)
    s_sound, _ = gen_sentences(gr, d["sound"], rng, n // 3)
    sents = s_must + s_doc + s_sound
    fixed_texts = FIXED + [x["example"] for x in CD.ACCEPT + CD.REJECT]
    n_fixed = len(fixed_texts)
    thm_texts = theorem_instances(rng, 40 if ctx.quick else 100)
    fixed_texts = fixed_texts + thm_texts
    fixed_toks = []
    rf = parse_flat(bindir, fixed_texts)
    for t, r in zip(fixed_texts, rf):
        b = t.encode()
        fixed_toks.append([(l[0], b[l[1]:l[2]].decode()) for l in r["leaves"] if l[0] not in TRIVIA and l[0] != "Eof"])
    inv_sk = {}
    for tkk, skk in gr.sk.items():
        inv_sk.setdefault(skk, tkk)
    fixed_sents = [[(inv_sk[k], x) for k, x in s] for s in fixed_toks]
    thm_sents = fixed_sents[n_fixed:]       # instances of C04_complete_type / _rangelist / _rangesuffix: far beyond the generator's bounds
    fixed_sents = fixed_sents[:n_fixed]
    allc = list(fixed_sents) + list(sents) + list(thm_sents)
    for s in thm_sents:
        allc += variants(s, rng, 2)
    nvar = 5 if ctx.quick else 8
    allc += class_substitutions(gr, fixed_sents + sents, rng)
    for s in fixed_sents:
        allc += systematic(s)
        allc += variants(s, rng, 12)
    small_limit = 12 if ctx.quick else 20
    for s in sents:
        if len(s) <= small_limit:
            allc += systematic(s)
    for s in sents:
        if len(s) <= 30:
            allc += variants(s, rng, nvar)
    seen, cases = set(), []
    for s in allc:
        t = text_of(s)
        if t not in seen:
            seen.add(t)
            cases.append((s, t))
    res = parse_flat(bindir, [t for _, t in cases])
    stats = {"ok": 0, "rejected": 0, "accepted": 0, "known-rejected": 0, "known-accepted": 0, "lex-mismatch": 0, "panic": 0}
    npos = nneg = 0
    n_thm = n_oracle_only = n_doc_not_must = 0
    oracle_only_examples = []
    worst = {}          # (verdict, signature) -> smallest case
    known_examples = {}
    distinct = set()
    must_clean = []
    acc_pool = []
    for (s, t), r in zip(cases, res):
        if "leaves" not in r:
            stats["panic"] += 1
            worst.setdefault(("panic", "panic"), (s, t, r))
            continue
        kinds = [k for k, _ in s]
        if kinds_of_result(r) != [gr.sk[k] for k in kinds]:
            stats["lex-mismatch"] += 1      # the text does not lex to the intended kinds: not a test of the parser
            continue
        has_err = bool(r["errors"])
        v, ks = classify(gr, kinds, has_err)
        stats[v] += 1
        distinct.add(tuple(kinds))
        if v in ("ok",) and not has_err and gr.must.recognise(kinds):
            must_clean.append((s, t))
        if gr.must.recognise(kinds):
            npos += 1
            if gr.comp.recognise(kinds):
                n_thm += 1                      # a sentence the whole-file theorem C04_complete_parse speaks about
            else:
                n_oracle_only += 1              # dangling else: decided by the oracle only
                if len(oracle_only_examples) < 5:
                    oracle_only_examples.append(t)
        elif not gr.trail.recognise(kinds):
            nneg += 1
        elif gr.doc.recognise(kinds):
            n_doc_not_must += 1                 # documented but excluded by a rejects:* delta: oracle / known finding only
        if v in ("rejected", "accepted"):
            if has_err:
                sig = r["errors"][0][2]
                cur = worst.get((v, sig))
                if cur is None or len(s) < len(cur[0]):
                    worst[(v, sig)] = (s, t, r)
            else:
                acc_pool.append((s, t, r))
        elif v.startswith("known"):
            for k in ks:
                cur = known_examples.get(k)
                if cur is None or len(t) < len(cur):
                    known_examples[k] = t
    acc_pool.sort(key=lambda x: len(x[0]))
    for i, c in enumerate(acc_pool[:12]):
        worst[("accepted", "accepted-%d" % i)] = c
    # ---- verdicts on the generated inputs
    for k, t in sorted(known_examples.items()):
        what = next((x["what"] for x in CD.ACCEPT + CD.REJECT if x["key"] == k), "combination of known deltas")
        if k in known:
            ctx.known(k, "key=%s %s [this run: %r]" % (k, what, t))
        else:
            found = True
            ctx.violation("C04 delta between the documented grammar and the parser that is not listed in known_findings.txt: %s (%s), input %r" % (k, what, t),
                          {"property": "C04", "kind": "known-delta-not-listed", "key": k, "input": t, "what": what, "seed": ctx.seed})
    reported = set()
    cands = sorted(worst.items(), key=lambda kv: len(kv[1][0]))
    for (v, sig), (s, t, r) in cands:
        if len(reported) >= 6:
            break
        found = True
        if v == "panic":
            reported.add(t)
            ctx.violation("C04 parser panicked on %r" % t, {"property": "C04", "kind": "panic", "input": t, "result": r, "seed": ctx.seed})
            continue
        small = shrink(bindir, gr, s, v)
        ts = text_of(small)
        if ts in reported:
            continue
        reported.add(ts)
        rr = parse_flat(bindir, [ts])[0]
        if v == "rejected":
            ctx.violation("C04 a sentence of the documented grammar gets syntax errors: %r -> %s" % (ts, rr["errors"][:2]),
                          {"property": "C04", "kind": "sentence-rejected", "input": ts, "token_kinds": [k for k, _ in small],
                           "errors": rr["errors"], "original": t, "seed": ctx.seed})
        else:
            ctx.violation("C04 a token sequence that is not derivable from the documented grammar parses with zero errors: %r" % ts,
                          {"property": "C04", "kind": "nonsentence-accepted", "input": ts, "token_kinds": [k for k, _ in small],
                           "errors": rr["errors"], "original": t, "seed": ctx.seed})
    # ---- typed accessors on the clean sentences
    clean_texts = set(t for _, t in must_clean)
    acc_cases = must_clean[: (1500 if ctx.quick else 8000)]
    acc_texts = [t for _, t in acc_cases]
    trees = L.run_json(os.path.join(bindir, "parsedump"), acc_texts, timeout=1800)
    walks = L.run_json(os.path.join(bindir, "astwalk"), acc_texts, timeout=1800)
    acc_bad = {}
    nodes_checked = 0
    for t, tr, w in zip(acc_texts, trees, walks):
        if "tree" not in tr or "nodes" not in w:
            continue
        nodes_checked += len(w["nodes"])
        for (pk, ck, what) in accessor_findings(tr["tree"], w["nodes"]):
            cur = acc_bad.get((pk, ck))
            if cur is None or len(t) < len(cur[0]):
                acc_bad[(pk, ck)] = (t, what)
    for (pk, ck), (t, what) in sorted(acc_bad.items()):
        key = "unreachable:%s.%s" % (pk, ck)
        if key in known:
            ctx.known(key, "key=%s %s [this run: %r]" % (key, what, t))
        else:
            found = True
            ctx.violation("C04 typed accessors: %s in %r" % (what, t),
                          {"property": "C04", "kind": "unreachable", "parent": pk, "child": ck, "input": t, "detail": what, "seed": ctx.seed})
    # ---- accessor model and child-frame table vs the real trees / real accessors (ties of C04_accessors_reach)
    acc_ties = 0
    acc_compared = 0
    try:
        import treeio
        aexe = vlib.build_model("astacc")
        sk_index = {k: i for i, k in enumerate(gr.d["tok"]["sks"])}
        sk_name = {i: k for k, i in sk_index.items()}
        lines, keep = [], []
        for t, tr, w in zip(acc_texts, trees, walks):
            if "tree" in tr and "nodes" in w:
                lines.append(treeio.tree_line(tr["tree"], t.encode(), sk_index))
                keep.append((t, tr, w))
        mo = L.run_model(aexe, "check", lines)
        for (t, tr, w), line in zip(keep, mo):
            acc_compared += 1
            nonconf, unre = (line.split("|") + [""])[:2]
            nonconf = [sk_name[int(x)] for x in nonconf.split()]
            model_unre = sorted({tuple(sk_name[int(y)] for y in x.split(":")) for x in unre.split()})
            real_unre = sorted({(pk, ck) for pk, ck, what in accessor_findings(tr["tree"], w["nodes"]) if "returned by no" in what})
            if nonconf:
                acc_ties += 1
                if acc_ties == 1:
                    fails.append({"kind": "correspondence", "file": "a real parse tree does not conform to the child-frame table computed from the grammar "
                                  "program (node kinds %s) for %r" % (nonconf, t)})
            elif model_unre != real_unre:
                acc_ties += 1
                if acc_ties == 1:
                    fails.append({"kind": "correspondence", "file": "accessor model (GenAst.v) vs real accessors (astwalk) differ on %r: model %s, real %s" % (t, model_unre, real_unre)})
    except vlib.BuildError as ex:
        fails.append({"kind": "model-build", "file": "extraction unit astacc", "error": str(ex)[-800:]})
    # ---- real-world files
    cfiles = corpus_files()
    ctexts = [open(f, encoding="utf-8", errors="replace").read() for f in cfiles]
    cres = parse_flat(bindir, ctexts) if ctexts else []
    corpus_bad = [(f, r.get("errors", [["panic"]])[:3]) for f, r in zip(cfiles, cres) if r.get("errors") or "leaves" not in r]
    for f, errs in corpus_bad[:3]:
        found = True
        ctx.violation("C04 real-world file %s does not parse clean: %s" % (os.path.basename(f), errs),
                      {"property": "C04", "kind": "corpus", "file": f, "errors": errs, "seed": ctx.seed})
    # ---- the corpus trees conform to the child-frame table too (they contain what no generated sentence has: huge lists, the <Type> suffix)
    corpus_nonconf = 0
    try:
        import treeio
        aexe = vlib.build_model("astacc")
        sk_index = {k: i for i, k in enumerate(gr.d["tok"]["sks"])}
        sk_name = {i: k for k, i in sk_index.items()}
        ctrees = L.run_json(os.path.join(bindir, "parsedump"), ctexts, timeout=1800) if ctexts else []
        clines = [treeio.tree_line(tr["tree"], t.encode(), sk_index) for t, tr in zip(ctexts, ctrees) if "tree" in tr]
        for f, line in zip(cfiles, L.run_model(aexe, "check", clines)):
            nonconf = [sk_name[int(x)] for x in line.split("|")[0].split()]
            unre = {tuple(sk_name[int(y)] for y in x.split(":")) for x in (line.split("|") + [""])[1].split()}
            if nonconf:
                corpus_nonconf += 1
                if corpus_nonconf == 1:
                    fails.append({"kind": "correspondence", "file": "corpus tree %s does not conform to the child-frame table (node kinds %s)" % (os.path.basename(f), sorted(set(nonconf)))})
            for pk, ck in sorted(unre):
                if pk != "List":     # List.<Type>: only through the undocumented suffix (accepts:list-element-type-suffix)
                    key = "unreachable:%s.%s" % (pk, ck)
                    if key in known:
                        ctx.known(key, "key=%s child %s of %s is returned by no typed accessor [corpus file %s]" % (key, ck, pk, os.path.basename(f)))
    except vlib.BuildError as ex:
        fails.append({"kind": "model-build", "file": "extraction unit astacc", "error": str(ex)[-800:]})
    # ---- parse model vs real parser (error presence) on a slice
    ties = 0
    compared = 0
    try:
        import synlib
        exe = vlib.build_model("syntax")
        sl = [t for _, t in cases][: (1500 if ctx.quick else 10000)]
        ml = synlib.model_lines(exe, "parse", sl, timeout=1500)
        for t, m, r in zip(sl, ml, res):
            if "leaves" not in r:
                continue
            compared += 1
            if m in ("PANIC", "OOF", "MODEL-CRASH"):
                merr = None
            else:
                merr = len([x for x in m.split("|")[1].split() if x])
            if merr != len(r["errors"]):
                ties += 1
                if ties == 1:
                    fails.append({"kind": "correspondence", "file": "parse model vs real parser on %r: model %s errors, real %d" % (t, merr, len(r["errors"]))})
    except vlib.BuildError as ex:
        fails.append({"kind": "model-build", "file": "extraction unit syntax", "error": str(ex)[-800:]})
    alts_total = sum(len(r[1]) if r[0] == "alt" else 1 for r in d["must"].values())
    all_alts = [(nt, i) for nt, r in sorted(d["must"].items()) for i in range(len(r[1]) if r[0] == "alt" else 1)]
    per_alt = {}
    for (s_, t_), r_ in zip(cases, res):
        pass
    unexercised = ["%s/%d" % a for a in all_alts if a not in used_must]
    ctx.cov.update({
        "evaluations": len(cases) + len(acc_texts) + len(ctexts),
        "distinct_nontrivial": len([k for k in distinct if len(k) >= 3]),
        "rule": "sentences: for every alternative of every rule of the documented grammar (3 variants: as read / with the REJECT deltas / with the ACCEPT deltas) "
                "two forced derivations + %d random derivations (size budgets 5..40), %d fixed inputs; ALL single-token deletions / duplications / adjacent transpositions of the "
                "fixed inputs and of the sentences of <= %d tokens; for every sentence of <= 30 tokens %d random variants of 1-2 token "
                "deletions / insertions (alphabet of %d tokens) / duplications / transpositions; each decided by the Earley recogniser (must-grammar => zero errors, "
                "not in the trailing-separator grammar => >= 1 error); accessor walk on the clean sentences; %d corpus files. "
                "non-trivial = distinct token-kind sequence of length >= 3" % (n + 2 * (n // 3), len(fixed_texts), small_limit, nvar, len(ALPHABET), len(cfiles)),
        "exhaustive": False,
        "verdicts": stats,
        "sentences_of_must_grammar": npos,
        "non_sentences": nneg,
        "doc_alternatives_total": alts_total,
        "sentences_under_theorem_C04_complete_parse": n_thm,
        "sentences_under_oracle_only_dangling_else": n_oracle_only,
        "sentences_under_oracle_only_examples": oracle_only_examples,
        "documented_sentences_excluded_by_rejects_deltas": n_doc_not_must,
        "theorem_instance_sentences": len(thm_sents),
        "theorem_instance_sentences_clean": sum(1 for s in thm_sents if text_of(s) in clean_texts),
        "theorem_instance_max_tokens": max([len(s) for s in thm_sents] or [0]),
        "doc_alternatives_exercised": len(used_must),
        "doc_alternatives_unexercised": unexercised,
        "doc_alternatives_per_nonterminal": {nt: "%d/%d" % (len([a for a in all_alts if a[0] == nt and a in used_must]),
                                                             len([a for a in all_alts if a[0] == nt])) for nt in sorted({a[0] for a in all_alts})},
        "sentence_size_budgets": [5, 10, 20, 30, 40] if ctx.quick else [5, 10, 20, 30, 40, 60, 90],
        "accessor_nodes_checked": nodes_checked,
        "accessor_sentences": len(acc_texts),
        "corpus_files": len(cfiles),
        "corpus_files_with_errors": len(corpus_bad),
        "corpus_trees_not_conforming_to_child_frames": corpus_nonconf,
        "accessor_model_trees_compared": acc_compared,
        "accessor_model_disagreements": acc_ties,
        "model_vs_parser_compared": compared,
        "correspondence_disagreements": ties,
        "traces_validated_against_impl": compared - ties,
        "known_deltas": {x["key"]: x["example"] for x in CD.ACCEPT + CD.REJECT},
        "document_reconciliation": d["doc"]["notes"],
        "samples": [{"input": t} for _, t in cases[len(fixed_texts):len(fixed_texts) + 3]] + [{"input": t} for _, t in cases[-2:]],
    })
    ctx.assumptions += ["a 'grammatical constituent' is a node of the syntax tree; tokens are not reached through typed accessors",
                        "sentences that need the trailing-separator allowance are exempt from both directions"]
    vlib.broken_ties_to_violations(ctx, fails, found)


def replay(ctx, path):
    obj = json.load(open(path))
    bindir = vlib.build_harness(False, bins=["parsedump", "astwalk"])
    kind = obj.get("kind")
    bad = False
    if kind in ("sentence-rejected", "nonsentence-accepted", "known-delta-not-listed", "panic"):
        t = obj["input"]
        r = parse_flat(bindir, [t])[0]
        gr = Grammars(vlib.REPO)
        gr.sk = tk_to_sk(gr.d["tok"])
        inv = {}
        for a, b in gr.sk.items():
            inv.setdefault(b, a)
        kinds = [inv[k] for k in kinds_of_result(r)] if "leaves" in r else []
        print("input:", repr(t))
        print("token kinds:", kinds)
        print("implementation (parser) errors:", json.dumps(r.get("errors")))
        try:
            import synlib
            exe = vlib.build_model("syntax")
            print("model (parser):", synlib.model_lines(exe, "parse", [t])[0].split("|")[1].strip() or "no errors")
        except Exception as ex:
            print("model: unavailable (%s)" % ex)
        print("oracle (Earley): must-grammar=%s documented=%s with-trailing-separator=%s with-known-accept-deltas=%s" % (
            gr.must.recognise(kinds), gr.doc.recognise(kinds), gr.trail.recognise(kinds), gr.sound.recognise(kinds)))
        v, ks = classify(gr, kinds, bool(r.get("errors")))
        print("verdict:", v, ks)
        bad = v in ("rejected", "accepted") or "leaves" not in r or (v.startswith("known") and any(k not in vlib.known_keys("C04") for k in ks))
    elif kind == "unreachable":
        t = obj["input"]
        tr = L.run_json(os.path.join(bindir, "parsedump"), [t])[0]
        w = L.run_json(os.path.join(bindir, "astwalk"), [t])[0]
        fs = accessor_findings(tr["tree"], w["nodes"])
        print("input:", repr(t))
        print("implementation (typed accessors):", json.dumps([n for n in w["nodes"] if n[0] == obj["parent"]])[:2000])
        print("oracle:", fs)
        bad = any(pk == obj["parent"] and ck == obj["child"] for pk, ck, _ in fs)
    elif kind == "corpus":
        r = parse_flat(bindir, [open(obj["file"], encoding="utf-8", errors="replace").read()])[0]
        print("file:", obj["file"], "errors:", r.get("errors", "panic")[:5])
        bad = bool(r.get("errors")) or "leaves" not in r
    else:
        print("replay file names a broken proof obligation / tie:", json.dumps(obj.get("broken"))[:3000])
        bad = True
    print("REPRODUCED" if bad else "not reproduced")
    return 1 if bad else 0
