"""C16 Include graphs: termination, exact reachability, links / not-found diagnostics, single indexing.

Proof: TG.Props.C16 (Coq, over the executable model M-host: Includes.v / Host.v).
Tie (C): every generated workspace goes through the real `collect_sources` + salsa inputs + handlers
(harness `hostdrive`, memfs mode, and the real AnalysisHost in parallel) and through the extracted
model; ids, the three inputs, the read_content log and the include-related query results are compared.
Oracle: the property itself on the implementation's observations (independent DFS in Python):
terminates (timeout / abort = violation), workspace = reachable set = diagnostics keys, links,
not-found diagnostics, each file's declarations exactly once in the outline."""
import itertools
import json

import hostlib as H
import vlib

THEOREMS = ["C16_terminates", "C16_fuel_bound", "C16_session_terminates", "C16_reach", "C16_links", "C16_notfound", "C16_all_entered", "C16_once", "C16_index_terminates", "C16_model_is_source"]
TRUSTED = [
    "tools/translate/t_filesystem.py (parser + operation table: renders the CURRENT file_system.rs / analysis.rs / vfs.rs into coq/gen/GenFileSystem.v) "
    "and the contracts of coq/model/FsOps.v (HashMap / Vec / VecDeque / loops / salsa inputs / env / disk / trait FileSystem); "
    "list_includes, Include::index, IndexCtx::{new,current_file_id,push_file,pop_file} and Server::set_file_content are tied by token shape only; "
    "handlers/document_link.rs exec is tied by translation + proof (group outline: tools/translate/t_handlers.py -> GenHandlersHost.v, "
    "HostHandlersSource.Links_model_is_source: rendered exec = Host.links_of (include map) (Pipeline.include_items tree) = Host.document_link)",
    "Coq 8.16.1 kernel (vm_compute only inside Examples)",
    "abstraction of the parse: a text is represented by its Include/Class descendants in document order "
    "(computed by the harness from the real parse tree with the public AST API, same scan as list_includes / document_link.rs); "
    "distinct Include nodes of a file have distinct ranges (checked on every case)",
    "`reached` flag of an include statement (does the indexer's traversal arrive there): true for every well-formed statement form of the generator "
    "(top level, if / else / let / foreach bodies, nested); for the one syntactically broken form (foreach without an iterator name) it is measured "
    "on the tree under test with a probe (DESIGN appendix D: such positions are carved out of the not-found clause)",
    "path algebra: theorems hold for every PathAlg with a decidable equality; the tie uses relative paths without '.', '..' or empty segments, "
    "where the segment-list instance coincides with PathBuf::join / Path::parent",
    "salsa returns for a derived query what the query function returns on the current inputs (DESIGN section 2)",
    "u32 FileId overflow (2^32 files) not modelled; static disk during one session",
    "extraction (ExtrOcamlBasic), host_driver.ml, harness hostdrive.rs / MemFs, lib/hostlib.py",
]

FORMS = ["inc", "inc_if", "inc_let", "inc_foreach", "inc_deep", "inc_else", "inc_foreach_unknown"]


def fname(i):
    return "f%d.td" % i


def graph_case(n, edges, variant, rng=None):
    """edges: set of (i, j).  Variants:
       plain    top-level includes + one missing target per file
       nested   includes nested in blocks (cycled forms), each edge twice when i+j is even, an `include ;`
       search   odd files live in inc/ and are found through INCLUDE_DIR; f1 is shadowed by a file next to the root
       unreach  the edge to the highest target of every file sits in a foreach without an iterator name (syntax error;
                the indexer does not enter the body)"""
    files = []
    for i in range(n):
        parts = [("decl", "C%d" % i)]
        outs = [j for j in range(n) if (i, j) in edges]
        for k, j in enumerate(outs):
            tgt = fname(j)
            if variant == "plain":
                parts.append(("inc", tgt))
            elif variant == "nested":
                form = FORMS[(i + j + k) % len(FORMS)]
                parts.append((form, tgt))
                if (i + j) % 2 == 0:
                    parts.append(("inc", tgt))
            elif variant == "search":
                parts.append(("inc", tgt))
            elif variant == "unreach":
                parts.append(("inc_unreached" if j == max(outs) else "inc", tgt))
        if variant == "plain":
            parts.append(("inc", "missing%d.td" % i))
        if variant == "nested" and i % 2 == 1:
            parts.append(("inc_nopath",))
        if variant == "unreach":
            parts.append(("inc_unreached", "missing%d.td" % i))
        parts.append(("decl", "D%d" % i))
        path = fname(i)
        if variant == "search" and i % 2 == 1:
            path = "inc/" + path
        files.append([path, H.build_text(parts)])
    inc = None
    if variant == "search":
        inc = "inc"
        if n >= 2:
            files.append(["sub/" + fname(0), H.build_text([("decl", "Shadow"), ("inc", fname(1))])])
            if len(edges) % 2 == 0:
                files.append([fname(1), H.build_text([("decl", "NextToRoot"), ("inc", "sub/" + fname(0))])])
    root = files[0]
    return {"mode": "memfs", "files": files, "include_dir": inc,
            "history": [["touch", root[0], root[1]]],
            "gen": "graph n=%d variant=%s edges=%s" % (n, variant, sorted(edges))}


def all_edge_sets(n):
    pairs = [(i, j) for i in range(n) for j in range(n)]
    for mask in range(1 << len(pairs)):
        yield {pairs[k] for k in range(len(pairs)) if mask >> k & 1}


def random_case(rng, nmax=8):
    n = rng.randint(2, nmax)
    dens = rng.choice([0.1, 0.2, 0.35])
    edges = {(i, j) for i in range(n) for j in range(n) if rng.random() < dens}
    return graph_case(n, edges, rng.choice(["plain", "nested", "search", "unreach"]))


def gen_cases(ctx):
    cases = []
    variants = ["plain", "nested", "search", "unreach"]
    nmax = 3 if ctx.quick else 4
    exhaustive = 0
    for n in range(1, nmax + 1):
        for idx, edges in enumerate(all_edge_sets(n)):
            if n <= 2:
                vs = variants
            elif n == 3:
                vs = variants if not ctx.quick else ["plain", variants[1 + idx % 3]]
            else:
                vs = [variants[idx % 4]]
            for v in vs:
                cases.append(graph_case(n, edges, v))
            exhaustive += 1
    nrand = 200 if ctx.quick else 3000
    for _ in range(nrand):
        cases.append(random_case(ctx.rng))
    return cases, exhaustive, nrand


def shape(case, ref):
    """classification used for the coverage counters"""
    tags = set()
    if len(ref["files"]) > 1:
        tags.add("multi-file")
    links = ref["links"]
    for p, ls in links.items():
        if any(t == p for _, _, t in ls):
            tags.add("self-include")
    indeg = {}
    for p, ls in links.items():
        for t in {t for _, _, t in ls}:
            indeg[t] = indeg.get(t, 0) + 1
    if any(v >= 2 for v in indeg.values()):
        tags.add("shared-target")
    if any(ref["notfound"][p] for p in ref["notfound"]):
        tags.add("not-found")
    if set(ref["indexed"]) != set(ref["files"]):
        tags.add("unindexed-file")
    # cycle through the root's component
    seen, stack, cyc = set(), [(ref["files"][0], ())], False
    adj = {p: {t for _, _, t in ls} for p, ls in links.items()}
    color = {}

    def dfs(u):
        color[u] = 1
        for v in adj.get(u, ()):
            if color.get(v) == 1:
                return True
            if v not in color and dfs(v):
                return True
        color[u] = 2
        return False
    for p in ref["files"]:
        if p not in color and dfs(p):
            tags.add("cycle")
            break
    return tags


def check_cases(ctx, bindir, exe, cases, label):
    res = H.evaluate(bindir, exe, cases, timeout_ms=2500)
    viol = {}      # clause -> smallest failing case
    ties = []
    for c, r in zip(cases, res):
        for clause, detail, step in r["bad"]:
            cur = viol.get(clause)
            if cur is None or H.case_size(c) < H.case_size(cur[0]):
                viol[clause] = (c, detail, step, r)
        if r["tie"] is not None:
            ties.append((c, r["tie"]))
    return res, viol, ties


def report(ctx, viol, ties, fails):
    found = False
    for clause, (c, detail, step, r) in sorted(viol.items()):
        found = True
        what = {"terminates": "selecting the root does not terminate (timeout / abort)",
                "reach": "workspace differs from the files reachable through resolvable includes",
                "links": "document links differ from the resolving include statements",
                "notfound": "not-found diagnostics differ from the non-resolving include statements",
                "once": "outline differs from the file's declarations indexed once",
                }.get(clause, clause)
        ctx.violation("C16 %s: %s" % (clause, what),
                      {"property": "C16", "clause": clause, "step": step, "detail": detail,
                       "case": {k: c[k] for k in ("mode", "files", "include_dir", "history")},
                       "reached": H.reached_of(c), "gen": c.get("gen"), "seed": ctx.seed})
    if ties and not found:
        c, (step, key, io, mo) = min(ties, key=lambda x: H.case_size(x[0]))
        fails.append({"kind": "correspondence", "file": "model M-host vs implementation differ on '%s'" % key})
        ctx.violation("C16 correspondence broken: model and implementation differ on '%s' (no property violation found by the oracle)" % key,
                      {"property": "C16", "broken": "correspondence M-host (Includes.v/Host.v) vs file_system.rs/index.rs",
                       "key": key, "step": step, "implementation": io, "model": mo,
                       "case": {k: c[k] for k in ("mode", "files", "include_dir", "history")},
                       "reached": H.reached_of(c), "seed": ctx.seed, "disagreeing_cases": len(ties)},
                      no_failing_input=True)
        found = True
    return found


def run(ctx):
    bindir = vlib.build_harness(False, bins=["hostdrive"])
    fails = vlib.proof_step(ctx, "TG.Props.C16", THEOREMS, ["props/C16.vo"], TRUSTED,
                            translators=["t_filesystem", "t_handlers", "t_ast", "t_foldkinds", "t_grammar", "t_lextables", "t_tokens", "t_unicode"])
    # handlers/document_link.rs `exec`: rendered by group outline's t_handlers.py and proven equal to Host.links_of over
    # Pipeline.include_items and to Host.document_link (props/HostHandlersSource.v)
    r2 = vlib.prove("TG.Props.HostHandlersSource", ["Links_model_is_source"], ["props/HostHandlersSource.vo"])
    fails += r2["failures"]
    ctx.cov["obligations"] += r2["obligations"]
    ctx.cov["discharged"] += r2["discharged"]
    ctx.cov["theorems"] = list(ctx.cov["theorems"]) + ["HostHandlersSource.Links_model_is_source"]
    ctx.cov["axioms_per_theorem"].update({"HostHandlersSource." + k: v for k, v in r2["assumptions"].items()})
    ctx.cov["coq_wall_s"] = round(ctx.cov["coq_wall_s"] + r2["wall_s"], 2)
    exe = vlib.build_model("host")
    ctx.cov["unreached_template_reached_on_this_tree"] = H.calibrate(bindir)
    cases, exhaustive, nrand = gen_cases(ctx)
    cases.sort(key=H.case_size)
    res, viol, ties = check_cases(ctx, bindir, exe, cases, "gen")
    # extraction cross-check: a slice of the batch evaluated by vm_compute inside Coq vs the extracted program
    if H.LAST_BATCH:
        nx, xbad = H.crosscheck_last_batch(40 if ctx.quick else 150)
        ctx.cov["extraction_crosschecked_in_coq"] = nx
        if xbad:
            fails.append({"kind": "extraction-crosscheck", "file": "extracted host_run differs from vm_compute of TG.Model.HostInst.run_digests",
                          "detail": xbad[:3]})
    # coverage
    distinct, counters, samples = set(), {}, []
    absmap = H._ABS
    for c, r in zip(cases, res):
        key = vlib.sha(json.dumps([c["files"], c["include_dir"], c["history"]], sort_keys=True))
        if key in distinct or "steps" not in r["impl"]:
            continue
        fsys = H.overlay_after(c)
        ref = H.reference(fsys, absmap, c["history"][-1][1], c["include_dir"])
        tags = shape(c, ref)
        if tags:
            distinct.add(key)
        for t in tags:
            counters[t] = counters.get(t, 0) + 1
    for c in (cases[0], cases[len(cases) // 2], cases[-1]):
        samples.append({k: c[k] for k in ("files", "include_dir", "history", "gen")})
    ran = sum(1 for r in res if not r["impl"].get("skipped"))
    ctx.cov.update({
        "evaluations": ran,
        "distinct_nontrivial": len(distinct),
        "rule": "every edge set over <=%d files (self loops included) x variants {plain+missing target, nested-in-block+duplicates+include without name, "
                "INCLUDE_DIR search path+shadowing, unreached foreach body}, plus %d random graphs over 2..8 files; root = f0; "
                "non-trivial = distinct case with at least one of: several files, self include, cycle, shared target, not-found, unindexed file" % (3 if ctx.quick else 4, nrand),
        "edge_sets_enumerated": exhaustive,
        "exhaustive": False,
        "shapes": counters,
        "samples": samples,
        "traces_validated_against_impl": sum(1 for r in res if "steps" in r["impl"] and r["tie"] is None),
        "correspondence_disagreements": len(ties),
        "compared": "id table, file_content, resolved_include_map, read_content log, source root, links, not-found diagnostics, outline; AnalysisHost vs own RootDatabase",
    })
    ctx.assumptions += ["static disk during a session", "salsa derived queries are functions of the inputs",
                        "includes below an early `?` return of the indexer (syntactically broken enclosing statement, e.g. foreach without an iterator name) are outside the not-found clause (DESIGN appendix D)"]
    found = report(ctx, viol, ties, fails)
    vlib.broken_ties_to_violations(ctx, fails, found)


def replay(ctx, path):
    obj = json.load(open(path))
    case = obj["case"]
    for t, fl in (obj.get("reached") or {}).items():
        H.REACHED.setdefault(t, fl)
    bindir = vlib.build_harness(False, bins=["hostdrive"])
    exe = vlib.build_model("host")
    res = H.evaluate(bindir, exe, [case], timeout_ms=4000)[0]
    print("implementation:", json.dumps(res["impl"])[:3000])
    print("model:", json.dumps(res["model"])[:3000])
    fs = H.overlay_after(case)
    ref = H.reference(fs, H._ABS, [p for k, p, _ in case["history"] if k != "raw"][-1], case.get("include_dir"))
    print("reference (property):", json.dumps(ref)[:3000])
    print("oracle:", json.dumps([(c, d, s) for c, d, s in res["bad"]], default=str)[:3000])
    print("tie:", json.dumps(res["tie"], default=str)[:2000])
    bad = bool(res["bad"]) or res["tie"] is not None
    print("REPRODUCED" if bad else "not reproduced")
    return 1 if bad else 0
