"""C10 Position mapping: byte offsets and LSP positions convert exactly.

1. harness `linesdump` is built against the current tree (observes lsp::to_proto::{position,range},
   lsp::from_proto::{position,range} on ide::line_index::LineIndex);
2. the Coq cone props/C10.vo is re-checked (theorems over ALL texts: C10_line, C10_roundtrip, C10_clamp about the
   specification pos_of/off_of; C10_impl_correct: the model of the implementation refines the specification and
   never panics), Print Assumptions, forbidden-declaration scan;
3. correspondence: the extracted model of the implementation (`lines_run impl`) and the real code get the same
   texts and the same queries; their observations are compared under the property's projection;
4. oracle: an independent reference mapper written here from the LSP specification (lines end at LF, CR LF, CR;
   columns in UTF-16 code units; columns past the line end and lines past the last line clamp) is compared
   with the real code on the same queries -> concrete failing inputs.

Projection (what the property speaks about):
  offset o <= len on a char boundary, not strictly inside a CR LF pair: exact (line, column), and
      from_proto(to_proto(o)) == o through the real code;
  offset o <= len otherwise (inside a multi-byte character, or between CR and LF): only "does not panic";
  offset o > len: ignored;
  (line, column) with the column not splitting a surrogate pair: exact offset (clamping included);
  (line, column) pointing between the two UTF-16 units of an astral character: only "does not panic";
  ranges: exact when both ends are exact and ordered; a reversed LSP range (TextRange::new asserts) is ignored;
  to_proto::folding_range (a, b), a <= b <= len: exact (line of a, line of b), boundary or not;
  to_proto::{inlay_hint, location, diagnostic, document_link, document_symbol}: must give exactly what
      to_proto::position / range give on the same input ("=").
"""
import json
import os
import subprocess
import time
from concurrent.futures import ProcessPoolExecutor

import vlib

# a, space, LF, CR, e-acute (2 bytes), euro (3 bytes, lead 0xE2), U+1F600 (4 bytes), FF, U+2028, U+FEFF (3 bytes, lead 0xEF:
# the last 3-byte lead byte, next to the 4-byte leads 0xF0..; seeded change C10-mut4 misreads exactly that lead byte)
ALPHABET = [97, 32, 10, 13, 233, 8364, 128512, 12, 8232, 0xFEFF]
THEOREMS = ["C10_line", "C10_line_inside_crlf", "C10_boundary_cases", "C10_roundtrip", "C10_clamp", "C10_column",
            "C10_line_exists", "C10_monotone", "C10_impl_correct", "C10_impl_folding_range", "C10_impl_wrappers", "C10_impl_every_offset",
            "C10_model_is_source", "C10_source_correct",
            "C10_impl_new", "C10_impl_partitioned", "C10_impl_char_boundary"]
TRUSTED = [
    "Coq 8.16.1 kernel (coqc; vm_compute not needed by these proofs); no axioms (Print Assumptions: closed under the global context)",
    "statement of the specification pos_of/off_of and of count_terms/last_line/is_line in coq/model/LineIndex.v (read against the LSP specification)",
    "translator tools/translate/t_lineindex.py (Rust subset reader + operation table): renders the current line_index.rs and to_proto/from_proto position/range/folding_range as coq/gen/GenLineIndex.v; C10_model_is_source proves the rendering equal to the hand model for all inputs",
    "hand-written model of line_index.rs, to_proto::{position,range,folding_range} (+ the wrappers inlay_hint/location/diagnostic/document_link/document_symbol as aliases), from_proto::{position,range} in coq/model/LineIndex.v, tied to the code by the correspondence run of this check",
    "modelled Rust std contracts: UTF-8 encoding of a String, str::is_char_boundary, str slicing panics, chars(), char::len_utf8/len_utf16, slice::partition_point on a partitioned slice (precondition proved), u32/usize conversions, debug-build overflow checks; text-size TextSize::of/try_from and the TextRange::new assertion",
    "Coq extraction (ExtrOcamlBasic only) and the OCaml driver coq/extract/lines_driver.ml",
    "Rust harness harness/src/bin/linesdump.rs, this Python driver and its reference mapper",
]


def u8(c):
    return 1 if c < 0x80 else 2 if c < 0x800 else 3 if c < 0x10000 else 4


def u16(c):
    return 1 if c < 0x10000 else 2


# ------------------------------------------------------------------ reference mapper (LSP specification)

def ref_lines(cps):
    """[(start byte, content code points, content end byte)], total byte length."""
    lines, off, i, n = [], 0, 0, len(cps)
    start, content = 0, []
    while i < n:
        c = cps[i]
        if c == 13 and i + 1 < n and cps[i + 1] == 10:
            term = 2
        elif c == 10 or c == 13:
            term = 1
        else:
            term = 0
        if term:
            lines.append((start, content, off))
            off += term
            i += term
            start, content = off, []
        else:
            content.append(c)
            off += u8(c)
            i += 1
    lines.append((start, content, off))
    return lines, off


def ref_positions(lines):
    """offset -> (line, utf16 column) for every char boundary that is not strictly inside a CR LF pair."""
    m = {}
    for li, (start, content, _end) in enumerate(lines):
        off, col = start, 0
        m[off] = (li, col)
        for c in content:
            off += u8(c)
            col += u16(c)
            m[off] = (li, col)
    return m


def ref_offset(lines, total, l, c):
    """(offset, exact?) ; exact is False when the column points between the units of a surrogate pair."""
    if l >= len(lines):
        return total, True
    start, content, _end = lines[l]
    off = start
    for ch in content:
        w = u16(ch)
        if c >= w:
            c -= w
            off += u8(ch)
        else:
            return off, c == 0
    return off, True


# ------------------------------------------------------------------ cases

def grid(cps):
    """(olo, ohi, llo, lhi, clo, chi): every byte offset up to one past the end, every line up to one past the
    last + 1, every column up to one past the longest line + 1."""
    lines, total = ref_lines(cps)
    maxcol = max(sum(u16(c) for c in content) for _s, content, _e in lines)
    return (0, total + 1, 0, len(lines) + 1, 0, maxcol + 1)


def case_line(cps, g, rg):
    return "%d %d %d %d %d %d %d" % (g + (rg,)), cps


def expected(cps, g, rg):
    """Expected observation tokens under the projection: a string = exact value, '~' = anything but a panic,
    None = ignored.  Returns the four sections."""
    olo, ohi, llo, lhi, clo, chi = g
    lines, total = ref_lines(cps)
    pm = ref_positions(lines)

    def pos_tok(o):
        if o > total:
            return None
        p = pm.get(o)
        return "~" if p is None else "%d:%d" % p
    s1 = [pos_tok(o) for o in range(olo, ohi + 1)]
    ps = [(l, c) for l in range(llo, lhi + 1) for c in range(clo, chi + 1)]
    offs = [ref_offset(lines, total, l, c) for (l, c) in ps]
    s2 = [str(o) if ex else "~" for (o, ex) in offs]
    s3, s4, s5, s6 = [], [], [], []
    if rg:
        starts = [st for st, _c, _e in lines]

        def line_tok(o):            # the line containing byte offset o (any offset inside the text, boundary or not)
            return max(i for i, st in enumerate(starts) if st <= o)
        for a in range(olo, ohi + 1):
            for b in range(a, min(a + 2, ohi) + 1):
                ta, tb = pos_tok(a), pos_tok(b)
                if ta is None or tb is None:
                    s3.append(None)
                    s5.append(None)
                    s6.append(None)
                    continue
                elif ta == "~" or tb == "~":
                    s3.append("~")
                else:
                    s3.append(ta + "-" + tb)
                s5.append("%d-%d" % (line_tok(a), line_tok(b)))
                s6.append("=")
        for k in range(len(ps) - 1):
            for (x, y) in ((k, k + 1), (k + 1, k)):
                (ox, ex), (oy, ey) = offs[x], offs[y]
                if ox > oy:
                    s4.append(None)            # reversed range: TextRange::new asserts; outside the property
                elif not (ex and ey):
                    s4.append(None if ox == oy else "~")
                else:
                    s4.append("%d-%d" % (ox, oy))
    return [s1, s2, s3, s4, s5, s6], ps


def split_obs(s):
    if s == "!new":
        return None
    secs = s.split("|")
    return [x.split(" ") if x else [] for x in secs]


def mismatch(e, x):
    return e is not None and ((x == "!") if e == "~" else (e != x))


def query_of(sec, k, g, ps, rg):
    olo, ohi = g[0], g[1]
    if sec == 0:
        return {"call": "lsp::to_proto::position", "offset": olo + k}
    if sec == 1:
        return {"call": "lsp::from_proto::position", "position": list(ps[k])}
    if sec in (2, 4, 5):
        pairs = [(a, b) for a in range(olo, ohi + 1) for b in range(a, min(a + 2, ohi) + 1)]
        call = {2: "lsp::to_proto::range", 4: "lsp::to_proto::folding_range",
                5: "lsp::to_proto::{inlay_hint,location,diagnostic,document_link,document_symbol} vs position/range"}[sec]
        return {"call": call, "range": list(pairs[k])}
    pr = [(ps[i], ps[j]) for kk in range(len(ps) - 1) for (i, j) in ((kk, kk + 1), (kk + 1, kk))]
    return {"call": "lsp::from_proto::range", "range": [list(pr[k][0]), list(pr[k][1])]}


def run_impl(bindir, cases):
    inp = json.dumps([hd + ";" + "".join(map(chr, cps)) for hd, cps in cases])
    p = subprocess.run([os.path.join(bindir, "linesdump")], input=inp, stdout=subprocess.PIPE,
                       stderr=subprocess.PIPE, text=True, timeout=1200)
    if p.returncode != 0:
        raise RuntimeError("linesdump failed: " + p.stderr[-2000:])
    return json.loads(p.stdout)


def run_model(exe, cases, cmd="impl"):
    inp = "".join(hd + " ; " + " ".join(map(str, cps)) + "\n" for hd, cps in cases)
    p = subprocess.run([exe, cmd], input=inp, stdout=subprocess.PIPE, stderr=subprocess.PIPE, text=True, timeout=1200)
    if p.returncode != 0:
        raise RuntimeError("lines_run failed: " + p.stderr[-2000:])
    out = p.stdout.split("\n")
    if out and out[-1] == "":
        out.pop()
    return out


def process_chunk(args):
    """texts: list of (cps, rg).  Returns statistics and the (bounded) lists of oracle failures and
    model/implementation disagreements."""
    bindir, exe, texts = args
    cases, meta = [], []
    for cps, rg in texts:
        g = grid(cps)
        cases.append(case_line(cps, g, rg))
        meta.append((cps, g, rg))
    impl = run_impl(bindir, cases)
    model = run_model(exe, cases)
    assert len(impl) == len(cases) and len(model) == len(cases), "observer output length"
    st = {"texts": 0, "queries": 0, "exact_queries": 0, "nopanic_queries": 0, "ignored_queries": 0,
          "roundtrips": 0, "raw_differences_outside_projection": 0}
    oracle_fail, corr_fail = [], []
    for (cps, g, rg), si, sm in zip(meta, impl, model):
        st["texts"] += 1
        exp, ps = expected(cps, g, rg)
        oi, om = split_obs(si), split_obs(sm)
        if oi is None or om is None:
            if oi is None:
                oracle_fail.append({"text": cps, "query": {"call": "ide::line_index::LineIndex::new"},
                                    "expected": "no panic", "observed": "panic", "model": sm})
            if (oi is None) != (om is None):
                corr_fail.append({"text": cps, "query": {"call": "LineIndex::new"}, "model": sm, "observed": si})
            continue
        for sec in range(6):
            e, xi, xm = exp[sec], oi[sec], om[sec]
            if len(xi) != len(e) or len(xm) != len(e):
                raise RuntimeError("observer/driver enumeration mismatch on %r section %d" % (cps, sec))
            st["queries"] += len(e)
            for k, ek in enumerate(e):
                if ek is None:
                    st["ignored_queries"] += 1
                elif ek == "~":
                    st["nopanic_queries"] += 1
                else:
                    st["exact_queries"] += 1
                a, b = xi[k], xm[k]
                if mismatch(ek, a) and len(oracle_fail) < 50:
                    oracle_fail.append({"text": cps, "query": query_of(sec, k, g, ps, rg),
                                        "expected": "no panic" if ek == "~" else ek,
                                        "observed": "panic" if a == "!" else a, "model": b})
                if a != b:
                    # compare under the projection
                    pa = None if ek is None else ((a == "!") if ek == "~" else a)
                    pb = None if ek is None else ((b == "!") if ek == "~" else b)
                    if pa != pb:
                        if len(corr_fail) < 50:
                            corr_fail.append({"text": cps, "query": query_of(sec, k, g, ps, rg),
                                              "model": b, "observed": a})
                    else:
                        st["raw_differences_outside_projection"] += 1
        # round trip through the real code: from_proto(to_proto(o)) == o on in-property offsets
        olo, _ohi, llo, lhi, clo, chi = g
        for k, ek in enumerate(exp[0]):
            if ek is None or ek == "~":
                continue
            a = oi[0][k]
            if a == "!" or ":" not in a:
                continue
            l, c = map(int, a.split(":"))
            if llo <= l <= lhi and clo <= c <= chi:
                back = oi[1][(l - llo) * (chi - clo + 1) + (c - clo)]
                st["roundtrips"] += 1
                if back != str(olo + k) and len(oracle_fail) < 50:
                    oracle_fail.append({"text": cps, "query": {"call": "from_proto::position(to_proto::position(o))",
                                                               "offset": olo + k, "via": [l, c]},
                                        "expected": str(olo + k), "observed": "panic" if back == "!" else back,
                                        "model": om[1][(l - llo) * (chi - clo + 1) + (c - clo)]})
    return st, oracle_fail, corr_fail


# ------------------------------------------------------------------ generation

def all_texts(maxlen):
    cur = [[]]
    yield []
    for _ in range(maxlen):
        cur = [t + [c] for t in cur for c in ALPHABET]
        for t in cur:
            yield t


def random_text(rng, n):
    out = []
    for _ in range(n):
        r = rng.random()
        if r < 0.30:
            out.append(rng.choice(ALPHABET))
        elif r < 0.45:
            out.append(rng.choice([10, 13]))
        elif r < 0.50:
            out.extend([13, 10])
        elif r < 0.70:
            out.append(rng.randrange(32, 127))
        elif r < 0.78:
            out.append(rng.randrange(0x80, 0x800))
        elif r < 0.86:
            c = rng.randrange(0x800, 0x10000)
            out.append(c if not (0xD800 <= c <= 0xDFFF) else 0xFFFD)
        elif r < 0.94:
            out.append(rng.randrange(0x10000, 0x110000))
        else:
            out.append(rng.choice([9, 11, 12, 0x85, 0x2028, 0x2029, 0xFEFF, 0]))
    return out


def nontrivial(cps):
    """a text on which byte, char and UTF-16 indices differ and a line terminator occurs"""
    return any(c >= 128 for c in cps) and any(c in (10, 13) for c in cps)


def text_repr(cps):
    return "".join(map(chr, cps)).encode("unicode_escape").decode("ascii")


# ------------------------------------------------------------------ the check

def encoding_check(exe, texts):
    """the model's UTF-8 encoder against Python's"""
    cases = [("0 0 0 0 0 0 0", cps) for cps in texts]
    out = run_model(exe, cases, "enc")
    bad = []
    for cps, o in zip(texts, out):
        want = " ".join(str(b) for b in "".join(map(chr, cps)).encode("utf-8"))
        if o.strip() != want:
            bad.append({"text": cps, "model": o, "python": want})
    return bad


def spec_check(exe, texts):
    """the extracted Coq SPEC pos_of/off_of against the Python reference mapper (in-property queries)"""
    cases, metas = [], []
    for cps in texts:
        g = grid(cps)
        cases.append(case_line(cps, g, 0))
        metas.append((cps, g))
    out = run_model(exe, cases, "spec")
    bad, n = [], 0
    for (cps, g), s in zip(metas, out):
        exp, ps = expected(cps, g, 0)
        secs = [x.split(" ") if x else [] for x in s.split("|")]
        for sec in range(2):
            for k, ek in enumerate(exp[sec]):
                if ek is None or ek == "~":
                    continue
                n += 1
                if secs[sec][k] != ek and len(bad) < 20:
                    bad.append({"text": cps, "query": query_of(sec, k, g, ps, 0), "coq_spec": secs[sec][k], "reference": ek})
    return bad, n


def coq_cone(rel):
    """the .v files props/C10.v depends on (transitively), from their `From TG.X Require [Import] A B.` lines"""
    import re
    dirs = {"Gen": "gen", "Model": "model", "Proofs": "proofs", "Props": "props", "Extract": "extract"}
    seen, todo = set(), [rel]
    while todo:
        f = todo.pop()
        if f in seen:
            continue
        seen.add(f)
        try:
            txt = vlib.strip_coq_comments(open(os.path.join(vlib.COQ, f)).read())
        except OSError:
            continue
        for ns, mods in re.findall(r"From\s+TG\.(\w+)\s+Require\s+(?:Import\s+|Export\s+)?([^.]*)\.", txt):
            for m in mods.split():
                todo.append("%s/%s.v" % (dirs.get(ns, ns.lower()), m))
        for ns, m in re.findall(r"Require\s+(?:Import\s+|Export\s+)?TG\.(\w+)\.(\w+)", txt):
            todo.append("%s/%s.v" % (dirs.get(ns, ns.lower()), m))
    return seen


def extraction_check(exe, texts):
    """cross-check of extraction + OCaml driver: the same cases evaluated INSIDE Coq (vm_compute on the model and on
    the specification) must print what the extracted program prints.  Returns (bad, n_values)."""
    import re
    cases, metas = [], []
    for cps in texts:
        g = grid(cps)
        cases.append(case_line(cps, g, 1))
        metas.append((cps, g))
    ext_impl = run_model(exe, cases, "impl")
    ext_spec = run_model(exe, cases, "spec")
    lst = lambda xs: "[" + "; ".join(xs) + "]"
    body = ["From Coq Require Import List NArith.", "From TG.Model Require Import Chars LineIndex.",
            "Import ListNotations.", "Open Scope N_scope.",
            "Definition pairs_of (os : list N) (ohi : N) : list (N * N) :=",
            "  flat_map (fun a => map (fun d => (a, a + d)) (filter (fun d => a + d <=? ohi) [0; 1; 2])) os.",
            "Definition run_case (t : text) (os : list N) (ohi : N) (ps : list (N * N)) :=",
            "  match li_new t with",
            "  | Panic _ => None",
            "  | Ok li => Some (map (to_proto_position li) os, map (from_proto_position li) ps,",
            "                   map (to_proto_range li) (pairs_of os ohi), map (to_proto_folding_range li) (pairs_of os ohi),",
            "                   map (pos_of t) os, map (fun p => off_of t (fst p) (snd p)) ps)",
            "  end."]
    for cps, g in metas:
        olo, ohi, llo, lhi, clo, chi = g
        os_ = [str(o) for o in range(olo, ohi + 1)]
        ps_ = ["(%d, %d)" % (l, c) for l in range(llo, lhi + 1) for c in range(clo, chi + 1)]
        body.append('Goal True. idtac "@@CASE". Abort.')
        body.append("Eval vm_compute in run_case %s %s %d %s." % (lst(map(str, cps)), lst(os_), ohi, lst(ps_)))
    d = os.path.join(vlib.CACHE, "lines")
    os.makedirs(d, exist_ok=True)
    path = os.path.join(d, "Cases_%d.v" % os.getpid())
    open(path, "w").write("\n".join(body) + "\n")
    try:
        with vlib.Lock("coq"):
            rc, out = vlib.sh(["coqc", "-noglob", "-Q", "gen", "TG.Gen", "-Q", "model", "TG.Model", path], cwd=vlib.COQ, timeout=600)
    finally:
        for ext in (".v", ".vo", ".vok", ".vos", ".glob"):
            try:
                os.remove(path[:-2] + ext)
            except OSError:
                pass
    if rc != 0:
        return [{"error": "coqc on the generated cases failed", "log": out[-800:]}], 0
    chunks = out.split("@@CASE")[1:]
    if len(chunks) != len(metas):
        return [{"error": "coqc printed %d cases, expected %d" % (len(chunks), len(metas))}], 0
    bad, n = [], 0
    for (cps, g), txt, ei, es in zip(metas, chunks, ext_impl, ext_spec):
        txt = txt.split("\n     : ")[0]
        txt = " ".join(txt.split())
        # six lists in order; tokens: Ok (a, b) | Ok (a, b, (c, d)) | Ok n | Panic X
        m = re.match(r"= Some \((.*)\)$", txt)
        if not m:
            bad.append({"text": cps, "coq": txt[:200], "extracted": ei[:200]})
            continue
        lists = re.findall(r"\[(.*?)\]", m.group(1))
        if len(lists) != 6:
            bad.append({"text": cps, "coq": txt[:200], "error": "expected six lists"})
            continue

        def toks(body, kind):
            out_ = []
            for item in [x.strip() for x in body.split(";")] if body.strip() else []:
                nums = re.findall(r"\d+", item)
                if item.startswith("Panic"):
                    out_.append("!")
                elif kind == "pos":
                    out_.append("%s:%s" % tuple(nums))
                elif kind == "off":
                    out_.append(nums[0])
                elif kind == "rng":
                    out_.append("%s:%s-%s:%s" % tuple(nums))
                else:
                    out_.append("%s-%s" % tuple(nums))
            return out_
        coq_impl = [toks(lists[0], "pos"), toks(lists[1], "off"), toks(lists[2], "rng"), toks(lists[3], "fold")]
        coq_spec = [toks(lists[4], "pos"), toks(lists[5], "off")]
        xi = split_obs(ei)
        xs = [x.split(" ") if x else [] for x in es.split("|")]
        got_impl = [xi[0], xi[1], xi[2], xi[4]]
        n += sum(len(x) for x in coq_impl) + sum(len(x) for x in coq_spec)
        if coq_impl != got_impl or coq_spec != xs[:2]:
            bad.append({"text": cps, "coq_vm_compute": [" ".join(x)[:120] for x in coq_impl + coq_spec],
                        "extracted": [" ".join(x)[:120] for x in got_impl + xs[:2]]})
    return bad, n


def run(ctx):
    t0 = time.time()
    bindir = vlib.build_harness(False, bins=["linesdump"])
    fails = vlib.proof_step(ctx, "TG.Props.C10", THEOREMS, ["props/C10.vo"], trusted_base=TRUSTED,
                            translators=["t_lineindex"])
    # the forbidden-declaration scan of vlib covers every .v of the shared project; only files in the dependency
    # cone of props/C10.v can affect these theorems (another group's unfinished file must not fail this property)
    if not ctx.quick and not fails:
        # thorough: re-check the compiled cone with the independent checker
        t1 = time.time()
        import re
        with vlib.Lock("coq"):
            rc, out = vlib.sh(["coqchk", "-silent", "-o", "-Q", "gen", "TG.Gen", "-Q", "model", "TG.Model", "-Q", "proofs",
                               "TG.Proofs", "-Q", "props", "TG.Props", "TG.Props.C10"], cwd=vlib.COQ, timeout=900)
        ok = rc == 0 and re.search(r"Axioms:\s*<none>", out) is not None
        ctx.cov["coqchk"] = {"ok": ok, "wall_s": round(time.time() - t1, 1), "summary": out[-600:]}
        if not ok:
            fails.append({"kind": "coqchk", "file": "props/C10.vo", "error": out[-1500:]})
    cone = coq_cone("props/C10.v")
    ctx.cov["coq_cone"] = sorted(cone)
    # what the translator T-lines read on this run, and what it produced
    src = {}
    for rel in ("crates/ide/src/line_index.rs", "crates/lsp/src/to_proto.rs", "crates/lsp/src/from_proto.rs"):
        try:
            src[rel] = vlib.sha(open(os.path.join(vlib.REPO, rel), encoding="utf-8").read())[:16]
        except OSError as ex:
            src[rel] = "unreadable: %s" % ex
    try:
        src["coq/gen/GenLineIndex.v"] = vlib.sha(open(os.path.join(vlib.COQ, "gen", "GenLineIndex.v")).read())[:16]
    except OSError as ex:
        src["coq/gen/GenLineIndex.v"] = "missing: %s" % ex
    ctx.cov["translated_source_sha256"] = src
    fails = [f for f in fails if not (f.get("kind") == "forbidden-declaration"
                                      and f.get("where", "").split(":")[0] not in cone)]
    exe = vlib.build_model("lines")
    t_setup = time.time() - t0

    maxlen = 5 if ctx.quick else 6
    range_len = 4                      # the two range sections are also observed on all texts up to this length
    n_random = 80 if ctx.quick else 600
    texts = [(t, 1 if len(t) <= range_len else 0) for t in all_texts(maxlen)]
    n_exh = len(texts)
    rnd = []
    for i in range(n_random):
        n = ctx.rng.choice([8, 20, 60, 150, 300]) if i % 5 else ctx.rng.randrange(300, 700)
        rnd.append(random_text(ctx.rng, n))
    # regression inputs named in DESIGN / known_findings (D7)
    corpus = [[233, 10, 120], [97, 12, 98, 10, 99], [97, 13, 10, 98], [128512, 97], [97, 98, 10, 99],
              [97, 8232, 98, 13, 99, 13, 10], [13, 13, 10, 10, 13], [8364, 13, 10, 128512, 233, 13]]
    texts = [(t, 1) for t in corpus] + texts + [(t, 1 if len(t) <= 60 else 0) for t in rnd]

    # chunk: small texts in big chunks, long texts in small ones
    chunks, cur, weight = [], [], 0
    for t in texts:
        w = 1 + len(t[0]) ** 2 // 8
        cur.append(t)
        weight += w
        if weight >= 12000:
            chunks.append(cur)
            cur, weight = [], 0
    if cur:
        chunks.append(cur)
    workers = max(1, min(vlib.NCPU, 12))
    for attempt in range(3):
        stats = {}
        oracle_fail, corr_fail = [], []
        try:
            with ProcessPoolExecutor(max_workers=workers) as ex:
                for st, of, cf in ex.map(process_chunk, [(bindir, exe, c) for c in chunks]):
                    for k, v in st.items():
                        stats[k] = stats.get(k, 0) + v
                    oracle_fail += of
                    corr_fail += cf
            break
        except FileNotFoundError:
            # the observer binary vanished while we ran (a concurrent clean-up of .cache/harness by another job on a
            # shared machine): rebuild it from the same tree and start over; anything else is a real failure
            if attempt == 2:
                raise
            bindir = vlib.build_harness(False, bins=["linesdump"])
            exe = vlib.build_model("lines")

    # side ties of the model: its UTF-8 encoder, and the Coq SPEC against the reference mapper
    side = corpus + [t for t, _ in texts[len(corpus):len(corpus) + 820]] + rnd[:40] + [[c] for c in
            (0, 127, 128, 2047, 2048, 65535, 65536, 1114111, 55295, 57344)]
    enc_bad = encoding_check(exe, side)
    spec_bad, spec_n = spec_check(exe, side)
    xt_texts = corpus + [t for t, _ in texts[len(corpus) + 10:len(corpus) + 820:9]] + [r[:24] for r in rnd[:30]]
    xt_bad, xt_n = extraction_check(exe, xt_texts)
    if not xt_bad and xt_n < 1000:
        xt_bad = [{"error": "extraction cross-check compared only %d values" % xt_n}]
    for b in xt_bad[:3]:
        fails.append({"kind": "correspondence", "file": "extracted-model-vs-vm_compute-in-Coq", "detail": b})
    for b in enc_bad[:3]:
        fails.append({"kind": "correspondence", "file": "model-utf8-encoder", "detail": b})
    for b in spec_bad[:3]:
        fails.append({"kind": "correspondence", "file": "coq-spec-vs-reference-mapper", "detail": b})

    # ---- verdict
    oracle_fail.sort(key=lambda f: (len(f["text"]), sum(u8(c) for c in f["text"]), json.dumps(f["query"], sort_keys=True)))
    corr_fail.sort(key=lambda f: (len(f["text"]), json.dumps(f["query"], sort_keys=True)))
    seen_calls = {}
    for f in oracle_fail:
        call = f["query"]["call"]
        if seen_calls.get(call, 0) >= 2:
            continue
        seen_calls[call] = seen_calls.get(call, 0) + 1
        ctx.violation("%s on %s: expected %s, observed %s" % (
            call, json.dumps(text_repr(f["text"])), f["expected"], f["observed"]),
            {"property": "C10", "seed": ctx.seed, "text": f["text"], "text_escaped": text_repr(f["text"]),
             "query": f["query"], "expected": f["expected"], "observed": f["observed"], "model": f["model"],
             "oracle": "reference mapper from the LSP specification (lines end at LF / CR LF / CR, UTF-16 columns, clamping)"})
    if corr_fail:
        fails.append({"kind": "correspondence", "file": "model-vs-implementation (lines_run impl vs linesdump)",
                      "count": len(corr_fail), "first": corr_fail[:3]})
    ctx.cov["broken_ties"] = [{k: (v if isinstance(v, (int, str)) else json.dumps(v)[:400]) for k, v in f.items()} for f in fails[:12]]
    vlib.broken_ties_to_violations(ctx, fails, bool(oracle_fail))

    # ---- evidence
    all_cps = [t for t, _ in texts]
    distinct = {tuple(t) for t in all_cps}
    by_len = {}
    for t in distinct:
        k = str(len(t)) if len(t) <= maxlen else ("7-99" if len(t) < 100 else "100+")
        by_len[k] = by_len.get(k, 0) + 1
    ctx.cov["evaluations"] = stats.get("queries", 0)
    ctx.cov["texts"] = stats.get("texts", 0)
    ctx.cov["distinct_nontrivial"] = sum(1 for t in distinct if nontrivial(t))
    ctx.cov["rule"] = ("texts: every string of length <= %d over {a, space, LF, CR, U+E9, U+20AC, U+1F600, FF, U+2028, U+FEFF} "
                       "(exhaustive), %d seeded random mixed texts of 8..700 code points (ASCII, 2/3/4-byte characters, "
                       "LF/CR/CRLF, VT/FF/NEL/U+2028/U+2029/BOM/NUL), and the regression inputs of defect D7; queries per text: "
                       "to_proto::position at every byte offset 0..len+1 (boundary or not), from_proto::position at every "
                       "(line, column) up to one past the last line + 1 and one past the longest line + 1, the two range "
                       "functions on neighbouring pairs (texts of length <= %d, random texts <= 60), and the round trip through the real code; "
                       "evaluations = queries answered by the real code and by the model; "
                       "a text is non-trivial when it contains a non-ASCII character and a line terminator; distinct = distinct texts"
                       % (maxlen, n_random, range_len))
    ctx.cov["exhaustive"] = True
    ctx.cov["exhaustive_texts"] = n_exh
    ctx.cov["random_texts"] = n_random
    ctx.cov["input_distribution"] = {"texts_by_length": dict(sorted(by_len.items())), **stats}
    ctx.cov["traces_validated_against_impl"] = stats.get("texts", 0)
    ctx.cov["oracle_failures"] = len(oracle_fail)
    ctx.cov["correspondence_disagreements"] = len(corr_fail)
    ctx.cov["coq_spec_vs_reference_queries"] = spec_n
    ctx.cov["model_encoder_texts_checked"] = len(side)
    ctx.cov["extraction_crosscheck"] = {"texts": len(xt_texts), "values_compared_with_vm_compute": xt_n, "disagreements": len(xt_bad)}
    sample_texts = [corpus[0], corpus[5], all_cps[len(corpus) + 7000 % max(1, n_exh)], rnd[1][:40]]
    samples = []
    for cps in sample_texts:
        g = grid(cps)
        obs = run_impl(bindir, [case_line(cps, g, 0)])[0]
        samples.append({"text": cps, "text_escaped": text_repr(cps), "grid": list(g), "observed": obs[:300]})
    ctx.cov["samples"] = samples
    ctx.cov["timing_s"] = {"setup_and_proof": round(t_setup, 1), "total": round(time.time() - t0, 1)}
    ctx.assumptions = [
        "usize is at least 32 bits (from_proto::position: u32 -> usize cannot fail)",
        "texts shorter than 2^32 bytes (TextSize); larger texts make LineIndex::new panic by design of text-size",
        "debug-build overflow semantics for the u32 column sum (unreachable below 2^32 bytes)",
        "offsets inside a multi-byte character or beyond the text, columns splitting a surrogate pair and reversed LSP ranges are outside the property (observed, never alarmed on, except panics for offsets <= len)",
    ]


def replay(ctx, path):
    r = json.load(open(path))
    if "text" not in r:
        print(json.dumps(r, indent=1)[:3000])
        print("replay: this file names a broken proof obligation / tie, not an input; re-run ./check C10")
        return 1
    bindir = vlib.build_harness(False, bins=["linesdump"])
    exe = vlib.build_model("lines")
    cps = r["text"]
    st, of, cf = process_chunk((bindir, exe, [(cps, 1)]))
    g = grid(cps)
    print("text      :", json.dumps(text_repr(cps)), cps)
    print("query     :", json.dumps(r.get("query")))
    print("expected  :", r.get("expected"), "(reference mapper)")
    print("recorded  :", r.get("observed"))
    case = case_line(cps, g, 1)
    print("impl now  :", run_impl(bindir, [case])[0][:2000])
    print("model now :", run_model(exe, [case])[0][:2000])
    same = [f for f in of if f["query"] == r.get("query")]
    for f in (same or of)[:5]:
        print("FAILS     :", json.dumps(f["query"]), "expected", f["expected"], "observed", f["observed"])
    if of:
        print("VIOLATION property=C10 replay=%s" % path)
        return 1
    print("replay: the implementation now agrees with the reference mapper on every query of this text")
    return 0
