"""C01 Lossless syntax tree: the leaf texts of syntax::parse(text) concatenate to the input byte for byte and
every token range equals the running position.

1. harness `parsedump` is built against the current tree;
2. translators regenerate coq/gen (the whole grammar as a DSL program), the Coq cone props/C01.vo is re-checked:
   theorems about EVERY program of the grammar DSL (G-tile), Print Assumptions, forbidden-declaration scan;
3. correspondence: the extracted model (lexer + preprocessor + parser primitives + regenerated grammar) and the
   real parser get the same texts; the trees (node kinds, nesting, leaf kinds, leaf byte lengths) are compared;
4. oracle = the property on the real code: tree.text() == input, token ranges are the running offsets from 0 to
   len(text), all on character boundaries.
Input families (the property's quantifier): exhaustive token-class sequences, exhaustive strings over a lexical
alphabet, grammar-generated programs, their token-level mutations, prefixes of corpus files, byte noise and non-ASCII
insertions, directive structures, the LLVM .td corpus.
"""
import glob
import json
import os
import time

import vlib
import synlib
import treeio
import parsergen

THEOREMS = ["C01_prims_are_source", "C01_lossless_source", "C01_parse_is_source", "C01_lossless_lib_parse", "C01_lossless", "C01_lossless_checked", "C01_lossless_any_program", "C01_prefix_any_program", "C01_lexer_lossless"]
TRUSTED = [
    "tie of lexer.rs / preprocessor.rs / parser.rs: TRANSLATION + PROOF -- tools/translate/{t_lexer,t_prep,t_parser}.py render every function of the three files (shallow state-monad embedding, coq/model/{ScanMonad,PrepMonad,ParserMonad}.v = contracts of unscanny, Rust std, rowan GreenNodeBuilder) into gen/Gen{Lexer,Prep,Parser}.v on every run; proofs/Gen{Lexer,Prep,Parser}Eq.v prove the rendering equal to the hand models for all states/texts (C0x_prims_are_source); trusted for these files are therefore the translators and the three monad files, no longer the hand models Lexer.v / Prep.v / ParserPrims.v (still cross-checked by the differential run); crates/syntax/src/lib.rs (`parse`, struct Parse and its accessors, Language::kind_from_raw/kind_to_raw) is rendered by t_libglue.py into gen/GenLibGlue.v over model/LibGlueApi.v and proved to be gparse_with (GenLibGlueEq.v, *_parse_is_source / *_lib_parse*)",
    "Coq 8.16.1 kernel; vm_compute for the reflective obligation on the regenerated grammar (certificate check); no axioms (Print Assumptions: closed under the global context)",
    "hand-written models coq/model/{Chars,Lexer,Prep,ParserPrims,Tree}.v of lexer.rs / preprocessor.rs / parser.rs and of rowan's GreenNodeBuilder (token, start_node, start_node_at, finish_node, finish; SyntaxNode::text and text_range derived from token texts), tied to the code by the correspondence run of this check",
    "translator tools/translate/t_grammar.py (+ t_tokens, t_lextables, t_unicode): the grammar functions as a program of the DSL of coq/model/GInterp.v, regenerated from the current sources on every run; the theorems quantify over every program, so a mistranslation cannot make C01 false for the model, only break the correspondence",
    "Coq extraction (ExtrOcamlBasic only) and the OCaml driver coq/extract/syntax_driver.ml",
    "Rust harness harness/src/bin/parsedump.rs, this Python driver and its oracle (lib/synlib.py: lossless_oracle)",
]
TRANSLATORS = ["t_tokens", "t_lextables", "t_unicode", "t_grammar", "t_grammarcert", "t_lexer", "t_prep", "t_parser", "t_libglue"]


def corpus_files():
    fs = sorted(glob.glob(os.path.join(vlib.VERIF, "corpus", "llvm", "*.td")))
    if not fs:
        fs = sorted(glob.glob("/usr/include/llvm-14/**/*.td", recursive=True))
    fs += sorted(glob.glob(os.path.join(vlib.VERIF, "corpus", "parser", "*.td")))
    out = []
    for f in fs:
        try:
            out.append((os.path.basename(f), open(f, encoding="utf-8").read()))
        except (OSError, UnicodeDecodeError):
            pass
    return out


def families(ctx):
    """list of (family, text); sizes depend on the tier, content on ctx.rng"""
    rng, q = ctx.rng, ctx.quick
    cases = []
    # (i) exhaustive token-class sequences: length <= 2 (quick, plus a sample of length 3) / <= 3 (thorough)
    for t in parsergen.token_class_sequences(2):
        cases.append(("token-classes<=2", t))
    tc = parsergen.TOKEN_CLASSES
    if q:
        for _ in range(3000):
            cases.append(("token-classes=3(sample)", rng.choice([" ", "", "\n"]).join(rng.choice(tc) for _ in range(3))))
    else:
        for t in parsergen.token_class_sequences(3, seps=(" ",)):
            cases.append(("token-classes<=3", t))
        for _ in range(20000):
            cases.append(("token-classes=4..6(sample)", rng.choice([" ", "", "\n"]).join(rng.choice(tc) for _ in range(rng.randrange(4, 7)))))
    # (ii) exhaustive strings over the lexical alphabet: length <= 2 quick (+ sample of 3,4) / <= 3 thorough (+ sample)
    for t in parsergen.alphabet_strings(2 if q else 3):
        cases.append(("alphabet<=%d" % (2 if q else 3), t))
    for _ in range(4000 if q else 60000):
        n = rng.randrange(3, 7)
        cases.append(("alphabet=3..6(sample)", "".join(rng.choice(parsergen.LEX_ALPHABET) for _ in range(n))))
    # (iii) grammar-generated programs, (iv) token-level mutations, (v) directive structures, (vi) noise
    nprog = 250 if q else 2500
    for i in range(nprog):
        toks = parsergen.gen_program(rng, rng.choice([5, 15, 40, 120]))
        cases.append(("generated", parsergen.render(rng, toks, crlf=(i % 7 == 0))))
        for _ in range(2):
            cases.append(("mutated", parsergen.render(rng, parsergen.mutate(rng, toks, rng.randrange(1, 4)))))
        cases.append(("directives-balanced", parsergen.render(rng, parsergen.balanced_directives(rng, toks, rng.randrange(1, 4)))))
        cases.append(("directives-random", parsergen.render(rng, toks, directives=0.08)))
        t = parsergen.render(rng, toks)
        cases.append(("noise", parsergen.noise(rng, t, rng.randrange(1, 6))))
    for _ in range(300 if q else 5000):
        cases.append(("random-text", parsergen.random_text(rng, rng.randrange(1, 40))))
    # (vii) corpus and prefixes of corpus files
    files = corpus_files()
    for name, t in files:
        cases.append(("corpus", t))
    npre = 150 if q else 3000
    small = [ft for ft in files if len(ft[1]) < 40000] or files
    for _ in range(npre):
        if not files:
            break
        name, t = rng.choice(small if rng.random() < 0.8 else files)
        cut = rng.randrange(len(t) + 1)
        if q:
            cut = min(cut, 30000)
        cases.append(("corpus-prefix", t[:cut]))
        if rng.random() < 0.3:
            cases.append(("corpus-noise", parsergen.noise(rng, t[:cut][-3000:], 3)))
    # (viii) deep nesting followed by more text (whatever happens at a nesting limit, nothing after it may be dropped)
    for t in parsergen.deep_with_tail([129, 256] if q else [64, 100, 127, 128, 129, 130, 200, 255, 256, 257, 300], tails=(1 if q else 2)):
        cases.append(("deep-nesting+tail", t))
    # regression inputs (minimised past disagreements)
    reg = os.path.join(vlib.VERIF, "corpus", "parser", "regressions.json")
    if os.path.exists(reg):
        for t in json.load(open(reg)):
            cases.append(("regression", t))
    seen, out = set(), []
    for fam, t in cases:
        if t not in seen:
            seen.add(t)
            out.append((fam, t))
    return out


def run_real(bindir, texts, timeout=900, watchdog_ms=None, budget=None):
    exe = os.path.join(bindir, "parsedump")
    args = ["--timeout-ms", str(watchdog_ms)] if watchdog_ms else []
    res = []
    # small texts in big batches, large ones in small batches (a crash is bisected by run_json_robust)
    batch, size = [], 0
    for t in texts:
        batch.append(t)
        size += len(t) + 16
        if size > 2_000_000 or len(batch) >= 4000:
            res += synlib.run_json_robust(exe, args, batch, timeout, budget)
            batch, size = [], 0
    if batch:
        res += synlib.run_json_robust(exe, args, batch, timeout, budget)
    return res


def shrink(text, still_fails, budget=12):
    """delta-debugging on characters; still_fails: list of texts -> list of bool (one process per round)"""
    cur = text
    n = 2
    while len(cur) > 1 and budget > 0:
        budget -= 1
        k = max(1, len(cur) // n)
        cands = [cur[:i] + cur[i + k:] for i in range(0, len(cur), k)]
        cands = [c for c in cands if c != cur]
        if not cands:
            break
        oks = still_fails(cands)
        hit = [c for c, o in zip(cands, oks) if o]
        if hit:
            cur = min(hit, key=len)
            n = max(n - 1, 2)
        elif k == 1:
            break
        else:
            n = min(n * 2, len(cur))
    return cur


def evaluate(ctx, bindir, exe, sk, cases):
    texts = [t for _f, t in cases]
    t0 = time.time()
    real = run_real(bindir, texts, budget={"left": 25})
    t_real = time.time() - t0
    t0 = time.time()
    model = synlib.model_lines(exe, "parse", texts, timeout=1500)
    t_model = time.time() - t0
    oracle_fail, corr_fail, model_bad = [], [], []
    sigs = set()
    for (fam, t), r, m in zip(cases, real, model):
        if "skipped" in r:
            continue
        why = synlib.lossless_oracle(t, r)
        if why:
            oracle_fail.append((fam, t, why))
            continue
        rl = synlib.real_tree_line(r["tree"], sk)
        if m in ("PANIC", "OOF", "MODEL-CRASH"):
            model_bad.append((fam, t, m))
            continue
        ml = m.split("|")[0].strip()
        if rl != ml:
            corr_fail.append((fam, t, rl[:300], ml[:300]))
        lv = synlib.real_leaves(r)
        if len(lv) >= 2:
            sigs.add(hash(tuple(k for k, _lo, _hi in lv)))
    return real, model, oracle_fail, corr_fail, model_bad, sigs, t_real, t_model


def run(ctx):
    bindir = vlib.build_harness(False, bins=["parsedump"])
    fails = vlib.proof_step(ctx, "TG.Props.C01", THEOREMS, ["props/C01.vo"], TRUSTED, translators=TRANSLATORS)
    synlib.stale_generated(ctx, fails, THEOREMS)
    exe = vlib.build_model("syntax")
    sk, _tk, _d = treeio.kind_tables(vlib.REPO)
    cases = families(ctx)
    real, model, oracle_fail, corr_fail, model_bad, sigs, t_real, t_model = evaluate(ctx, bindir, exe, sk, cases)

    def still_fails(cands):
        rs = run_real(bindir, cands, timeout=120)
        return [synlib.lossless_oracle(c, r) is not None for c, r in zip(cands, rs)]

    found = False
    reported = set()
    for fam, t, why in oracle_fail[:40]:
        small = shrink(t, still_fails) if len(t) <= 20000 else t
        if small in reported:
            continue
        reported.add(small)
        r = run_real(bindir, [small])[0]
        why_small = synlib.lossless_oracle(small, r) or why
        m = synlib.model_lines(exe, "parse", [small])[0]
        found = True
        ctx.violation("C01 fails on the real parser: " + why_small,
                      {"property": "C01", "input": small, "family": fam, "original_input_len": len(t),
                       "observed": {"oracle": why_small, "real": _obs(r), "model": m[:2000]},
                       "expected": "tree.text() == input; token ranges = running offsets 0..len on char boundaries",
                       "seed": ctx.seed})
        if len(reported) >= 5:
            break
    if corr_fail or model_bad:
        ex = [{"family": f, "input": t[:400], "real": a, "model": b} for f, t, a, b in corr_fail[:5]]
        ex += [{"family": f, "input": t[:400], "model": m} for f, t, m in model_bad[:5]]
        fails.append({"kind": "correspondence", "file": "model-vs-parser tree correspondence (%d disagreements, %d model panics)"
                      % (len(corr_fail), len(model_bad)), "examples": ex})
    fam_count = {}
    for f, _t in cases:
        fam_count[f] = fam_count.get(f, 0) + 1
    ctx.cov.update({
        "evaluations": len(cases),
        "distinct_nontrivial": len(sigs),
        "distinct_nontrivial_meaning": "distinct leaf-kind sequences (>= 2 leaves) among the real parser's trees",
        "rule": "oracle on syntax::parse: text()==input, leaf ranges tile [0,len) on char boundaries; model tree == real tree",
        "input_distribution": fam_count,
        "samples": [t[:120] for _f, t in cases[:: max(1, len(cases) // 12)]][:12],
        "oracle_failures": len(oracle_fail), "correspondence_disagreements": len(corr_fail), "model_panics": len(model_bad),
        "max_input_bytes": max(len(t.encode("utf-8")) for _f, t in cases),
        "real_wall_s": round(t_real, 1), "model_wall_s": round(t_model, 1),
        "traces_validated_against_impl": len(cases) - len(oracle_fail),
    })
    vlib.broken_ties_to_violations(ctx, fails, found)


def _obs(r):
    if "panic" in r or "crash" in r or "timeout" in r:
        return r
    lv = synlib.real_leaves(r)
    return {"text_ok": r.get("text_ok"), "leaves": lv[:60], "n_leaves": len(lv)}


def replay(ctx, path):
    obj = json.load(open(path))
    if "input" not in obj:
        print(json.dumps(obj, indent=1)[:3000])
        return 1
    bindir = vlib.build_harness(False, bins=["parsedump"])
    vlib.run_translators(TRANSLATORS)
    exe = vlib.build_model("syntax")
    t = obj["input"]
    r = run_real(bindir, [t])[0]
    m = synlib.model_lines(exe, "parse", [t])[0]
    why = synlib.lossless_oracle(t, r)
    print("input   :", json.dumps(t, ensure_ascii=False)[:2000])
    print("oracle  :", why or "holds")
    print("real    :", json.dumps(_obs(r), ensure_ascii=False)[:2000])
    print("model   :", m[:2000])
    return 1 if why else 0
