"""C13 Diagnostics are sound and complete on the supported core language.

1. harness `idedump` (real Analysis::diagnostics) and `coreast` (real parse trees -> CoreAst; cross-check of the
   CoreAst the extracted bridge unit computes from the texts inside Coq) are built;
2. the Coq cone props/C13.vo is re-checked: per fault class the check of index.rs / bang_operator.rs that must
   fire (model in coq/model/{Scope,BangOps,Indexer}.v) emits the diagnostic of that class on the range of the
   site, and an emitted diagnostic is never lost (all programs); C13_sound is stated with the registered known
   finding as `_refuted` witness; Print Assumptions; forbidden-declaration scan;
3. correspondence: well-formed generated programs AND their single-fault mutants go through the real code and
   the extracted model (`scope_run model` on the real parse): diagnostics equal as (file, range, class) multisets;
4. oracle (direct statement of the property on the real code):
   sound    - every generated well-formed program of the Core fragment (lib/tdgen.py; audited with llvm-tblgen)
              has NO diagnostic in any file;
   complete - for each fault class of the statement one mutant per program (lib/tdgen.seed_faults): at least one
              diagnostic of the right class whose range covers the seeded site in the seeded file, none in the
              files the fault does not touch; seeded faults are also audited to be rejected by llvm-tblgen.
"""
import json
import os
import shutil
import time

import vlib
import scopelib as sl
import synlib
import tdgen

THEOREMS = ["C13_complete_undefined_class_type", "C13_complete_undefined_class_parent",
            "C13_complete_undefined_class_value", "C13_complete_undefined_multiclass",
            "C13_complete_undefined_identifier", "C13_complete_undefined_include",
            "C13_complete_surplus_template_argument", "C13_complete_missing_template_argument",
            "C13_complete_incompatible_argument",
            "C13_complete_incompatible_initialiser", "C13_complete_operator_arity", "C13_complete_syntax_error",
            "C13_diagnostics_persist", "C13_sound_refuted", "C13_sound_no_not_found_partial", "C13_visited_all_partial", "C13_sound_no_not_found_workspace_partial", "C13_visited_all_workspace_partial", "C13_sound_no_not_found_field_access_partial", "C13_visited_all_field_access_partial"]
TRUSTED = [
    "Coq 8.16.1 kernel (coqc; vm_compute in the _refuted witness and the non-vacuity Examples); no axioms",
    "hand-written model of index.rs / index/bang_operator.rs / symbol_map/typ.rs / handlers/diagnostics.rs in "
    "coq/model/{Scope,BangOps,Indexer}.v, tied to the code by the correspondence run of this check "
    "(diagnostics as (file, range, message class) multisets on well-formed programs and on every mutant) AND, for Core programs, by "
    "translation + proof: the indexer functions of IndexerSource, all bang operators, scope.rs, context.rs, symbol_map/typ.rs "
    "and the handlers/diagnostics.rs `exec` (entries below); the accessor table remains a trusted table",
    "parse errors (C04's subject) reach the model as ranges: those of the MODEL parser (bridge unit), required equal "
    "(range and message) to those of the real parser on every workspace of the run",
    "message-class table lib/scopelib.py MSG_CLASSES (message text -> class)",
    "the CoreAst the model runs on is computed INSIDE Coq from the texts (group bridge: model lexer/parser over the "
    "generated tables, coq/model/AstToCore.v through the generated accessor table coq/gen/GenAst.v, coq/model/Pipeline.v; "
    "extracted unit `bridge`; theorems coq/props/Bridge.v) and is required, on EVERY workspace of the run (well-formed "
    "programs and every mutant), to be character for character what the observer harness/src/bin/coreast.rs reads off "
    "the REAL parse tree through the real typed accessors (a difference or a bridge unit that does not build is a "
    "broken tie): coreast.rs is a cross-check, not part of the trusted base for Core programs; trusted instead: the "
    "translators tools/translate/{t_tokens,t_lextables,t_unicode,t_lexer,t_grammar,t_grammarcert,t_ast}.py (re-run by this check; "
    "tied to the code by C01/C02/C04/C15), the hand models of the hand-written ast.rs methods in AstToCore.v (now tied to ast.rs / lib.rs by "
    "props/AstSource.v: translators t_astmethods, t_libglue; re-checked by this check), "
    "coq/extract/bridge_driver.ml",
    "observer harness/src/bin/idedump.rs, Coq extraction (ExtrOcamlBasic only), OCaml driver coq/extract/scope_driver.ml",
    "generator and fault seeder lib/tdgen.py (well-formedness by construction, audited with llvm-tblgen-14 on "
    "the programs that only use LLVM-14 features), this Python driver",
]
BINS = ["coreast", "idedump"]

# regression inputs: defects found by this check and repaired in /repo (fixed: lines D29, D30)
DIRECTED_SOUND = [
    ("untyped-template-arg", "class A<int a>; def d : A<!cond(1: 1, true: 2)>;"),
    ("defvar-untyped-init", "defvar x = !cond(1: 1, true: 2); def D { int y = x; }"),
    ("defset-name", "class A; defset list<A> S = { def q : A; }  def E { list<A> y = S; }"),
    ("named-argument", "class A<int x>; class B : A<x = 1>;"),
]
# well-formed: inheritance graphs in which an ancestor is reached twice before the parent that declares the field
DIRECTED_SOUND += [(d["key"], d["text"]) for d in tdgen.diamond_cases()]
# well-formed: a class forward-declared (also in an included header) and defined later; a local name spelled like an earlier
# def / defset (the local wins: no type diagnostic); named template arguments that bind every argument without default
DIRECTED_SOUND += [(d["key"], d["files"]) for d in tdgen.forward_class_cases() + tdgen.shadowed_def_cases()]
DIRECTED_SOUND += tdgen.named_argument_cases()
# well-formed: an include statement nested in a block body (let-in, foreach, if, defset): the quick tier's random
# generator keeps includes at top level (include-in-block is a thorough-tier feature), so the shapes are pinned here
# (added after mutation wave 5: C13-mut7 made list_includes top-level only)
_NESTED_INC = {
    "let": 'class B { int v = 0; }\nlet v = 1 in {\n  include "inc.td"\n}\ndef m : A;\n',
    "foreach": 'class B { int v = 0; }\nforeach i = [1] in {\n  include "inc.td"\n}\ndef m : A;\n',
    "if": 'class B { int v = 0; }\nif 1 then {\n  include "inc.td"\n}\ndef m : B;\n',
    "defset": 'class B { int v = 0; }\ndefset list<B> S = {\n  include "inc.td"\n}\ndef m : A;\n',
    "let-foreach": 'class B { int v = 0; }\nlet v = 2 in {\n  foreach i = [1, 2] in {\n    include "inc.td"\n  }\n}\ndef m : A;\n',
}
DIRECTED_SOUND += [("nested-include-" + k, {"/w/main.td": t, "/w/inc.td": "class A : B;\ndef a0 : A;\n"})
                   for k, t in sorted(_NESTED_INC.items())]
DIRECTED_COMPLETE = [
    ("classvalue-undefined-class", "def d { int x = Foo<1>.y; }", [16, 19], "ClassNotFound"),
]
# a template argument without default left unbound while other arguments are passed BY NAME
DIRECTED_COMPLETE += tdgen.named_missing_argument_cases()


def covers(d, f):
    """diagnostic d = (path, lo, hi, class) reports fault f"""
    if d[0] != f.path or d[3] not in f.expect:
        return False
    if f.kind == "syntax-error":
        return d[1] <= f.lo < max(d[2], d[1] + 1) or (d[1] <= f.hi and f.lo <= d[2])
    return d[1] <= f.lo and f.hi <= d[2]


def llvm(exe, files, root, d):
    shutil.rmtree(d, ignore_errors=True)
    os.makedirs(d)
    for path, text in files.items():
        with open(os.path.join(d, os.path.basename(path)), "w") as f:
            f.write(text)
    rc, out = vlib.sh([exe, "-I", d, os.path.join(d, os.path.basename(root)), "-o", os.devnull], timeout=10)
    return rc, out


def batches(bindir, exe, wss, offsets="none", fails=None, stats=None):
    I, C, M = [], [], []
    for chunk in vlib.chunked(wss, 100):
        i = sl.impl(bindir, chunk, offsets=offsets)
        c = sl.core_checked(bindir, chunk, fails if fails is not None else [], stats)
        m = sl.model(exe, c, chunk) if exe else [None] * len(chunk)
        I += i
        C += c
        M += m
    return I, C, M


def diag_corr(i, c, m):
    if m is None or m.get("error"):
        return None if m is None else ["model driver error: " + m["error"]]
    di, dm = sl.impl_diags(i, c), sl.model_diags(m, c["files"])
    if di != dm:
        return ["diagnostics: implementation-only %r, model-only %r" % (
            [d for d in di if d not in dm][:4], [d for d in dm if d not in di][:4])]
    return []


def run(ctx):
    t0 = time.time()
    bindir = vlib.build_harness(False, bins=BINS)
    fails = vlib.proof_step(ctx, "TG.Props.C13", THEOREMS, ["props/C13.vo"], TRUSTED,
                            translators=sl.BRIDGE_TRANSLATORS + sl.INDEXER_TRANSLATORS + sl.DIAG_TRANSLATORS)
    sl.source_tie(ctx, fails, diags=True)
    synlib.ast_source_step(ctx, fails)     # the hand-written ast.rs accessor methods + lib.rs glue = the bridge's hand versions
    try:
        exe = vlib.build_model("scope")
    except vlib.BuildError as ex:
        exe = None
        fails.append({"kind": "extraction", "error": str(ex)[-1500:]})
    n = 80 if ctx.quick else 1500
    # includes inside block bodies: thorough tier only (see checks/C05.py)
    progs = [tdgen.generate(ctx.rng, size=ctx.rng.choice([2, 3, 5, 8] if ctx.quick else [3, 5, 8, 12]),
                            feats=None if ctx.quick else {"include-in-block": True}) for _ in range(n)]
    wss = [p.workspace() for p in progs]
    bridge_stats = {}
    I, C, M = batches(bindir, exe, wss, fails=fails, stats=bridge_stats)
    found = False
    broken = []
    feats, texts, nontrivial, samples = {}, set(), 0, []
    n_corr = 0
    # ---- sound
    for p, w, i, c, m in zip(progs, wss, I, C, M):
        key = json.dumps(w["files"], sort_keys=True)
        if key not in texts and len(p.uses) >= 3:
            nontrivial += 1
        texts.add(key)
        for f in p.features:
            feats[f] = feats.get(f, 0) + 1
        if i.get("panic"):
            ctx.violation("the indexer panicked: " + str(i["panic"])[:200], {"property": "C13", "workspace": w})
            found = True
            continue
        ds = sl.impl_diags(i, c)
        if ds:
            ctx.violation("false positive on a well-formed Core program: %r" % (i["diagnostics"],),
                          {"property": "C13", "part": "sound", "workspace": w, "diagnostics": i["diagnostics"]})
            found = True
        if not c.get("noncore"):
            bad = diag_corr(i, c, m)
            if bad is not None:
                n_corr += 1
                if bad:
                    broken.append({"workspace": w, "disagreements": bad})
        if len(samples) < 2:
            samples.append({"files": w["files"], "features": sorted(p.features)})
    # ---- complete
    faults = [(p, f) for p in progs for f in tdgen.seed_faults(p, ctx.rng)]
    fws = [{"files": f.files, "root": p.root} for p, f in faults]
    FI, FC, FM = batches(bindir, exe, fws, fails=fails, stats=bridge_stats)
    per_class = {}
    fault_samples = []
    for (p, f), w, i, c, m in zip(faults, fws, FI, FC, FM):
        st = per_class.setdefault(f.kind, {"mutants": 0, "reported": 0})
        st["mutants"] += 1
        if i.get("panic"):
            ctx.violation("the indexer panicked on a single-fault mutant: " + str(i["panic"])[:200],
                          {"property": "C13", "workspace": w})
            found = True
            continue
        ds = sl.impl_diags(i, c)
        cov = [d for d in ds if covers(d, f)]
        dirty = [d for d in ds if d[0] in f.check_files]
        rec = {"property": "C13", "part": "complete", "fault": f.kind, "note": f.note, "workspace": w,
               "site": [f.path, f.lo, f.hi], "expect": f.expect, "clean_files": f.check_files,
               "diagnostics": i["diagnostics"]}
        if not cov:
            ctx.violation("seeded %s at %s:%d-%d is not reported (diagnostics: %r)" % (
                f.kind, f.path, f.lo, f.hi, i["diagnostics"]), rec)
            found = True
        else:
            st["reported"] += 1
        if dirty:
            ctx.violation("seeded %s in %s produces diagnostics in untouched files: %r" % (f.kind, f.path, dirty[:3]), rec)
            found = True
        if not c.get("noncore"):
            bad = diag_corr(i, c, m)
            if bad is not None:
                n_corr += 1
                if bad:
                    broken.append({"workspace": w, "disagreements": bad})
        if len(fault_samples) < 4 and f.kind not in [x["fault"] for x in fault_samples]:
            fault_samples.append({"fault": f.kind, "site": [f.path, f.lo, f.hi], "files": w["files"],
                                  "diagnostics": i["diagnostics"]})
    # ---- regression inputs (repaired defects) and the registered known finding
    known = vlib.known_keys("C13")
    dws = [{"files": (t if isinstance(t, dict) else {"/w/main.td": t}), "root": "/w/main.td"} for _k, t in DIRECTED_SOUND]
    for (k, t), w, o in zip(DIRECTED_SOUND, dws, sl.impl(bindir, dws, offsets="none")):
        if o.get("panic") or any(o["diagnostics"].values()):
            ctx.violation("false positive on %s %r: %r" % (k, w["files"]["/w/main.td"], o.get("diagnostics")),
                          {"property": "C13", "part": "sound", "workspace": w, "directed": k})
            found = True
    dws = [{"files": {"/w/main.td": t}, "root": "/w/main.td"} for _k, t, _s, _c in DIRECTED_COMPLETE]
    for (k, t, site, cls), o in zip(DIRECTED_COMPLETE, sl.impl(bindir, dws, offsets="none")):
        ds = [d for d in o["diagnostics"]["/w/main.td"] if d[0] <= site[0] and site[1] <= d[1] and sl.msg_class(d[2]) == cls]
        if not ds:
            ctx.violation("fault %s in %r is not reported" % (k, t),
                          {"property": "C13", "part": "complete", "workspace": {"files": {"/w/main.td": t}, "root": "/w/main.td"},
                           "directed": k, "site": site})
            found = True
    # one fault inside a file that is included from a block body: reported in THAT file at the seeded site, nothing elsewhere
    nws, nsites = [], []
    for k, t in sorted(_NESTED_INC.items()):
        for fk, inc, site in (("syntax-error", "class A : B;\ndef a0 : A\nclass Z;\n", (23, 28)),
                              ("undefined-class", "class A : B;\ndef a0 : Nope;\n", (22, 26))):
            nws.append({"files": {"/w/main.td": t, "/w/inc.td": inc}, "root": "/w/main.td"})
            nsites.append((k, fk, site))
    for (k, fk, site), w, o in zip(nsites, nws, sl.impl(bindir, nws, offsets="none")):
        ds = [] if o.get("panic") else o["diagnostics"].get("/w/inc.td", [])
        hit = [d for d in ds if d[0] <= site[1] and site[0] <= max(d[1], d[0] + 1)]
        if o.get("panic") or not hit or o["diagnostics"].get("/w/main.td"):
            ctx.violation("%s in a file included from a %s block: diagnostics %r" % (fk, k, o.get("diagnostics")),
                          {"property": "C13", "part": "complete", "workspace": w, "directed": "nested-include-" + k,
                           "site": ["/w/inc.td"] + list(site)})
            found = True
    # operands of an unknown (not inferable) type in every operator / operand position: no diagnostic
    unk = tdgen.unknown_operand_cases()
    unk = unk if not ctx.quick else ctx.rng.sample(unk, 60)
    for w, o in zip(unk, sl.impl(bindir, [{"files": x["files"], "root": x["root"]} for x in unk], offsets="none")):
        if o.get("panic") or o["diagnostics"]["/w/main.td"]:
            ctx.violation("false positive on an operand of unknown type (%s, operand %d as %s): %r" % (
                w["op"], w["operand"], w["how"], o.get("diagnostics")),
                {"property": "C13", "part": "sound", "workspace": {"files": w["files"], "root": w["root"]},
                 "diagnostics": o.get("diagnostics")})
            found = True
    fam = tdgen.known_if_siblings(ctx.rng, 12)
    kf_hit = 0
    for w, o in zip(fam, sl.impl(bindir, [{"files": x["files"], "root": x["root"]} for x in fam], offsets="none")):
        ds = o["diagnostics"]["/w/main.td"]
        if ds:
            kf_hit += 1
            if all(sl.msg_class(d[2]) in ("Operand", "FieldIncompat") for d in ds) and "if-sibling-records" in known:
                ctx.known("if-sibling-records", known["if-sibling-records"])
            else:
                ctx.violation("false positive on well-formed %s: %r" % (w["shape"], ds),
                              {"property": "C13", "part": "sound", "workspace": {"files": w["files"], "root": w["root"]},
                               "diagnostics": o["diagnostics"]})
                found = True
    if broken:
        fails.append({"kind": "correspondence", "file": "model Indexer.v/BangOps.v vs crates/ide/src/index.rs, "
                      "index/bang_operator.rs", "disagreements": broken[:3]})
    # ---- llvm-tblgen audit
    tool = shutil.which("llvm-tblgen-14") or shutil.which("llvm-tblgen")
    audit = {"tool": tool, "accepted": 0, "mutants_rejected": 0, "skipped": 0, "disagree": []}
    if tool:
        d = os.path.join(vlib.CACHE, "scope", "audit13-%d" % os.getpid())
        limit = 12 if ctx.quick else 60
        for p in progs:
            if audit["accepted"] >= limit:
                break
            if not tdgen.uses_llvm14_only(p):
                audit["skipped"] += 1
                continue
            rc, out = llvm(tool, p.files, p.root, d)
            if "[timeout]" in out:
                audit["timeout"] = audit.get("timeout", 0) + 1     # (expansion does not terminate: nothing to compare)
                continue
            if rc == 0 or ("assertion failed" in out and out.count("error:") == out.count("error: assertion failed")):
                audit["accepted"] += 1
            else:
                audit["disagree"].append({"files": p.files, "why": "llvm-tblgen rejects: " + out[-300:]})
        for (p, f) in faults:
            if audit["mutants_rejected"] >= 2 * limit:
                break
            if not tdgen.uses_llvm14_only(p):
                continue
            rc, out = llvm(tool, f.files, p.root, d)
            if "[timeout]" in out:
                audit["timeout"] = audit.get("timeout", 0) + 1
                continue
            if rc != 0:
                audit["mutants_rejected"] += 1
            else:
                audit["disagree"].append({"files": f.files, "fault": f.kind, "why": "llvm-tblgen accepts the mutant"})
        shutil.rmtree(d, ignore_errors=True)
    ctx.cov.update({
        "evaluations": len(progs) + len(faults), "distinct_nontrivial": nontrivial,
        "well_formed_programs": len(progs), "single_fault_mutants": len(faults),
        "fault_classes": per_class, "correspondence_cases": n_corr, "correspondence_disagreements": len(broken),
        "known_finding_family": {"cases": len(fam), "reproduced": kf_hit},
        "unknown_operand_family": len(unk),
        "core_ast_from_texts_inside_coq": bridge_stats,
        "rule": "sound: generated well-formed Core programs have no diagnostic in any file; complete: one mutant per "
                "fault class and program - a diagnostic of the class covering the seeded site in the seeded file and "
                "none in untouched files; model == implementation on all of them",
        "input_distribution": {"size": "2-8 statements per file (quick) / 3-12 (thorough)", "files": "1-3",
                               "features": dict(sorted(feats.items()))},
        "llvm_tblgen_audit": {k: (v if k != "disagree" else len(v)) for k, v in audit.items()},
        "samples": samples + fault_samples, "wall_s": round(time.time() - t0, 1),
    })
    if audit["disagree"]:
        ctx.cov["llvm_tblgen_disagreements"] = audit["disagree"][:3]
    vlib.broken_ties_to_violations(ctx, fails, found)


def replay(ctx, path):
    obj = json.load(open(path))
    w = obj.get("workspace")
    if not w:
        print(json.dumps(obj, indent=1)[:4000])
        print("replay: this file names a broken proof obligation / tie, not an input; re-run ./check C13")
        return 1
    bindir = vlib.build_harness(False, bins=BINS)
    exe = vlib.build_model("scope")
    i = sl.impl(bindir, [w], offsets="none")[0]
    c = sl.core_checked(bindir, [w], [])[0]
    m = sl.model(exe, [c], [w])[0]
    for p, t in w["files"].items():
        print("--- %s\n%s" % (p, t))
    print("implementation diagnostics:", json.dumps(i.get("diagnostics")))
    print("model diagnostics         :", json.dumps(m["diags"]) if m else "(outside Core: %s)" % c.get("noncore"))
    print("recorded                  :", json.dumps({k: obj.get(k) for k in ("part", "fault", "site", "expect", "clean_files", "directed")}))
    failing = False
    ds = sl.impl_diags(i, c)
    if obj.get("part") == "sound":
        failing = bool(ds)
    elif obj.get("fault"):
        f = tdgen.Fault(obj["fault"], w["files"], obj["site"][0], obj["site"][1], obj["site"][2], obj["expect"],
                        obj["clean_files"], "")
        failing = not [d for d in ds if covers(d, f)] or bool([d for d in ds if d[0] in f.check_files])
    elif obj.get("directed"):
        site = obj["site"]
        failing = not [d for d in ds if d[1] <= site[0] and site[1] <= d[2]]
    if m is not None and not c.get("noncore"):
        bad = diag_corr(i, c, m)
        if bad:
            print("model/implementation disagree:", bad[0][:300])
            failing = True
    if failing:
        print("VIOLATION property=C13 replay=%s" % path)
        return 1
    print("replay: the implementation now satisfies the property on this input")
    return 0
